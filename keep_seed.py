#!/usr/bin/env python3
"""keep_seed.py <name> <worktree> <property> <caught_by csv> <needs text> [notes]
Copies a confirmed sub-agent seed into /verif/seeded/<name>/ with meta.json."""
import sys, os, shutil, json, datetime
name, wt, prop, caught, needs = sys.argv[1:6]
notes = sys.argv[6] if len(sys.argv) > 6 else ""
d = f"/verif/seeded/{name}"
os.makedirs(d, exist_ok=True)
for f in ("patch.diff", "zz_seed_demo_test.go", "README.md"):
    shutil.copy(os.path.join(wt, "_seed", f), os.path.join(d, f if f != "zz_seed_demo_test.go" else "demo_test.go.txt"))
meta = {
    "breaks_property": prop,
    "origin": "independent sub-agent given only the property text and a scratch worktree of /repo (nothing from /verif)",
    "needs_to_manifest": needs,
    "confirmed": "in the scratch worktree: existing suite passes with the change; demonstration test fails with it and passes without it (confirm_seed.sh)",
    "ran": f"./seedtest.sh seeded/{name}/patch.diff quick <checks>  (applies to /repo, runs the checks, restores /repo)",
    "caught_by_quick_checks": [c for c in caught.split(",") if c],
    "notes": notes,
    "demo": "demo_test.go.txt (rename to zz_seed_demo_test.go in the repository root, package zap, to run it)",
}
json.dump(meta, open(os.path.join(d, "meta.json"), "w"), indent=1)
print("kept", d)
