#!/bin/bash
# ./check.sh <Cxx> <quick|thorough>   run one check against /repo's current working tree
# ./check.sh replay <file>            re-execute one recorded violation without any explorer
# ./check.sh setup                    pre-build every flavour (warms the Go build cache)
#
# Every invocation rebuilds the harness binaries it needs from /repo's current files
# (go build is incremental: ~1-2 s when nothing changed).
set -u
export GOFLAGS=-mod=mod GOPROXY=off GOSUMDB=off GOTOOLCHAIN=local CGO_ENABLED=0
VERIF=$(cd "$(dirname "$0")" && pwd)
[ "${1:-}" = replay ] && [ -n "${2:-}" ] && REPLAY_FILE=$(readlink -f "$2")
export VERIF_DIR=$VERIF
BIN=$VERIF/.bin
REPO=${VERIF_REPO:-/repo}
MODFLAG=
if [ "$REPO" != /repo ]; then
  # scratch copy of the repository (seedtest.sh): own binaries, own go.mod with the replace redirected
  BIN=$VERIF/.bin-alt${VERIF_ALT:-}
  mkdir -p "$BIN"
  sed -e "s|=> /repo|=> $REPO|" -e "s|=> ../fakefaiss|=> $VERIF/fakefaiss|" "$VERIF/harness/go.mod" > "$BIN/go.mod"
  cp "$VERIF/harness/go.sum" "$BIN/go.sum"
  MODFLAG="-modfile=$BIN/go.mod"
fi
mkdir -p "$BIN"
cd "$VERIF/harness" || exit 2

build() { # flavour
  local f=$1 out="$BIN/vcheck-$1" log="$BIN/build-$1.log"
  case "$f" in
    plain)   go build $MODFLAG -tags "verif" -o "$out" ./cmd/vcheck >"$log" 2>&1 ;;
    vec)     go build $MODFLAG -tags "verif vectors" -o "$out" ./cmd/vcheck >"$log" 2>&1 ;;
    race)    CGO_ENABLED=1 go build $MODFLAG -race -tags "verif" -o "$out" ./cmd/vcheck >"$log" 2>&1 ;;
    racevec) CGO_ENABLED=1 go build $MODFLAG -race -tags "verif vectors" -o "$out" ./cmd/vcheck >"$log" 2>&1 ;;
    inst|instvec)
      local tags="verif inst"; [ "$f" = instvec ] && tags="verif vectors inst"
      local ov; ov=$(mktemp -d /dev/shm/verif-ov-XXXXXX) || return 2
      if ! go run $MODFLAG ./instrument -repo "$REPO" -out "$ov" -tags "$tags" >"$log" 2>&1; then rm -rf "$ov"; return 1; fi
      go build $MODFLAG -overlay "$ov/overlay.json" -tags "$tags" -o "$out" ./cmd/vcheck >>"$log" 2>&1
      local rc=$?; rm -rf "$ov"; return $rc ;;
    *) echo "unknown flavour $f" >&2; return 2 ;;
  esac
}

flavours_of() {
  case "$1" in
    C01|C04|C09|C12) echo "plain vec" ;;
    C18)             echo "plain vec inst instvec" ;;
    C17)             echo "plain inst" ;;
    C14|C15|C19)     echo "vec" ;;
    C16)             echo "vec instvec racevec" ;;
    C10)             echo "plain inst instvec race" ;;
    C11)             echo "plain inst race" ;;
    C20)             echo "plain vec inst race" ;;
    *)               echo "plain" ;;
  esac
}

need() { # builds the flavours, exports VCHECK_<FLAVOUR>
  # The first flavour runs the check and must build. A later one that does not build (an
  # instrumented or race build can trip over a construct the plain build accepts) is
  # skipped: the remaining stages still run and can still report a violation; the
  # evidence then says exhaustive:false with a note naming the skipped stage.
  local f first=1
  for f in "$@"; do
    if ! build "$f"; then
      if [ $first = 1 ]; then
        echo "BUILD-FAILED flavour=$f (see below); not a property verdict" >&2
        tail -30 "$BIN/build-$f.log" >&2
        exit 2
      fi
      echo "STAGE-SKIPPED flavour=$f: it does not build against this tree (see below); the other stages run" >&2
      tail -15 "$BIN/build-$f.log" >&2
      unset "VCHECK_$(echo "$f" | tr a-z A-Z)"
      first=0
      continue
    fi
    first=0
    export "VCHECK_$(echo "$f" | tr a-z A-Z)=$BIN/vcheck-$f"
  done
}

case "${1:-}" in
  setup)
    need plain vec
    for f in inst instvec race racevec; do
      [ -d "$VERIF/harness/instrument" ] || case $f in inst*) continue;; esac
      build "$f" || { echo "setup: flavour $f failed"; tail -20 "$BIN/build-$f.log"; exit 2; }
    done
    echo "setup ok" ;;
  replay)
    need plain vec
    for f in inst instvec race racevec; do [ -x "$BIN/vcheck-$f" ] && export "VCHECK_$(echo "$f" | tr a-z A-Z)=$BIN/vcheck-$f"; done
    exec "$BIN/vcheck-plain" replay "$REPLAY_FILE" ;;
  C[0-9][0-9])
    id=$1; tier=${2:-quick}
    fl=$(flavours_of "$id")
    need $fl
    first=${fl%% *}
    exec "$BIN/vcheck-$first" "$id" "$tier" ;;
  *) echo "usage: $0 <Cxx> <quick|thorough> | replay <file> | setup" >&2; exit 2 ;;
esac
