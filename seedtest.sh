#!/bin/bash
# ./seedtest.sh <patch.diff> [tier] [Cxx ...]
# Applies a seeded change to a SCRATCH worktree of /repo's HEAD (never to /repo itself),
# runs the given checks against it (default: all, quick tier; VERIF_REPO redirects the
# harness build), prints which of them report a violation, and removes the worktree.
# Evidence and replay files go to a scratch copy of the verification tree, not to /verif.
set -u
patch=$(readlink -f "$1"); shift
tier=quick
if [ "${1:-}" = quick ] || [ "${1:-}" = thorough ]; then tier=$1; shift; fi
props=("$@")
[ ${#props[@]} -eq 0 ] && props=(C01 C02 C03 C04 C05 C06 C07 C08 C09 C10 C11 C12 C13 C14 C15 C16 C17 C18 C19 C20)
wt=$(mktemp -d /tmp/seedrepo-XXXXXX); rmdir "$wt"
git -C /repo worktree add --detach "$wt" HEAD >/dev/null 2>&1 || { echo "cannot create worktree" >&2; exit 2; }
trap 'git -C /repo worktree remove --force "$wt" >/dev/null 2>&1; git -C /repo worktree prune' EXIT
git -C "$wt" apply "$patch" || { echo "patch does not apply" >&2; exit 2; }
caught=()
for p in "${props[@]}"; do
  s=$(date +%s)
  out=$(VERIF_REPO="$wt" VERIF_OUT=/dev/shm/seedtest-out${VERIF_ALT:-} /verif/check.sh "$p" "$tier" 2>&1); rc=$?
  e=$(date +%s)
  nv=$(echo "$out" | grep -c '^VIOLATION')
  sigs=$(echo "$out" | grep "^--- $p sig=" | sed 's/^--- //' | sort | uniq -c | head -4 | tr '\n' ';')
  hn=$(grep -c 'HARNESS' /dev/shm/seedtest-out${VERIF_ALT:-}/evidence/$p.json 2>/dev/null)
  [ "${hn:-0}" -gt 0 ] && sigs="$sigs HARNESS-notes=$hn"
  echo "$p rc=$rc violations=$nv $((e-s))s $sigs"
  [ $rc -eq 1 ] && caught+=("$p")
  [ $rc -eq 2 ] && echo "$out" | tail -5
done
rm -rf /dev/shm/seedtest-out${VERIF_ALT:-}
echo "CAUGHT-BY: ${caught[*]:-none}"
