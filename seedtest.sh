#!/bin/bash
# ./seedtest.sh <patch.diff> [tier] [Cxx ...]
# Applies a seeded change to /repo, runs the given checks (default: all, quick tier),
# prints which of them report a violation, and ALWAYS restores /repo afterwards.
set -u
patch=$1; shift
tier=quick
if [ "${1:-}" = quick ] || [ "${1:-}" = thorough ]; then tier=$1; shift; fi
props=("$@")
[ ${#props[@]} -eq 0 ] && props=(C01 C02 C03 C04 C05 C06 C07 C08 C09 C10 C11 C12 C13 C14 C15 C16 C17 C18 C19 C20)
if [ -n "$(git -C /repo status --porcelain --untracked-files=no)" ]; then echo "/repo has local changes; refusing" >&2; exit 2; fi
trap 'git -C /repo checkout -- . ; git -C /repo status --porcelain --untracked-files=no' EXIT
git -C /repo apply "$patch" || { echo "patch does not apply" >&2; exit 2; }
caught=()
for p in "${props[@]}"; do
  s=$(date +%s)
  out=$(/verif/check.sh "$p" "$tier" 2>&1); rc=$?
  e=$(date +%s)
  nv=$(echo "$out" | grep -c '^VIOLATION')
  sigs=$(echo "$out" | grep "^--- $p sig=" | sed 's/^--- //' | sort | uniq -c | head -4 | tr '\n' ';')
  echo "$p rc=$rc violations=$nv $((e-s))s $sigs"
  [ $rc -eq 1 ] && caught+=("$p")
  [ $rc -eq 2 ] && echo "$out" | tail -5
done
echo "CAUGHT-BY: ${caught[*]:-none}"
