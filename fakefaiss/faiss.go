// Package faiss is a pure-Go stand-in for github.com/blevesearch/go-faiss
// (v1.0.25 API subset used by zapx), selected by a `replace` directive in the
// verification harness' go.mod. libfaiss is not installed in the sandbox.
//
// Semantics: "IDMap2,Flat" is an exact brute-force index; "IVF<n>,..." is a
// deterministic inverted-file index (centroids picked deterministically from
// the training set, nearest-centroid assignment, probing nprobe lists).
// Distances: MetricL2 -> squared euclidean distance (smaller is better),
// MetricInnerProduct -> inner product (larger is better). Results are sorted
// best-first, ties broken by smaller id, and padded with label -1.
//
// In addition the package keeps accounting of "native" objects (indexes and
// selectors): live set, double frees, use after free; it logs every call and can
// make the n-th call of an operation fail (see Control).
package faiss

import (
	"bytes"
	"encoding/binary"
	"encoding/json"
	"errors"
	"fmt"
	"math"
	"sort"
	"strconv"
	"strings"
	"sync"
)

const (
	MetricInnerProduct = 0
	MetricL2           = 1
)

const (
	IOFlagMmap         = 1
	IOFlagReadOnly     = 2
	IOFlagReadMmap     = 0x646f0000 | 0x8
	IOFlagSkipPrefetch = 0x10
)

// ---------------------------------------------------------------------------
// control / accounting

// Control is the harness-facing side of the stand-in engine.
type Control struct {
	mu       sync.Mutex
	nextID   int64
	live     map[int64]string // object id -> kind
	errs     []string
	log      []string
	counts   map[string]int
	failAt   map[string]int // op -> n (1-based); 0 = never
	Hook     func(op string, n int)
	closedID map[int64]bool
	sticky   []string
}

// Ctl is the process-wide control block.
var Ctl = &Control{live: map[int64]string{}, counts: map[string]int{}, failAt: map[string]int{}, closedID: map[int64]bool{}}

// Reset clears the log, the fault plan, recorded errors and per-op counters. It does
// not forget live objects (use LiveCount before/after).
func (c *Control) Reset() {
	c.mu.Lock()
	c.errs = nil
	c.log = nil
	c.counts = map[string]int{}
	c.failAt = map[string]int{}
	c.Hook = nil
	c.mu.Unlock()
}

// ForgetLive drops the live table (between independent executions).
func (c *Control) ForgetLive() {
	c.mu.Lock()
	c.live = map[int64]string{}
	c.closedID = map[int64]bool{}
	c.mu.Unlock()
}

// FailAt makes the n-th (1-based) call of op fail.
func (c *Control) FailAt(op string, n int) {
	c.mu.Lock()
	c.failAt[op] = n
	c.mu.Unlock()
}

func (c *Control) Log() []string {
	c.mu.Lock()
	defer c.mu.Unlock()
	return append([]string(nil), c.log...)
}

func (c *Control) Counts() map[string]int {
	c.mu.Lock()
	defer c.mu.Unlock()
	rv := map[string]int{}
	for k, v := range c.counts {
		rv[k] = v
	}
	return rv
}

// misuse records a misuse of a native object (caller holds c.mu). Besides the Errors
// list, which Reset clears, it is kept in a sticky list that only TakeMisuse empties.
func (c *Control) misuse(msg string) {
	c.errs = append(c.errs, msg)
	c.sticky = append(c.sticky, msg)
}

// TakeMisuse returns and clears every misuse recorded since the last call, across Resets.
func (c *Control) TakeMisuse() []string {
	c.mu.Lock()
	defer c.mu.Unlock()
	rv := c.sticky
	c.sticky = nil
	return rv
}

func (c *Control) Errors() []string {
	c.mu.Lock()
	defer c.mu.Unlock()
	return append([]string(nil), c.errs...)
}

func (c *Control) LiveCount() int {
	c.mu.Lock()
	defer c.mu.Unlock()
	return len(c.live)
}

// LiveIndexes returns the ids of live index objects, sorted.
func (c *Control) LiveIndexes() []int64 {
	c.mu.Lock()
	defer c.mu.Unlock()
	var rv []int64
	for id, k := range c.live {
		if k == "index" {
			rv = append(rv, id)
		}
	}
	sort.Slice(rv, func(i, j int) bool { return rv[i] < rv[j] })
	return rv
}

func (c *Control) IsLive(id int64) bool {
	c.mu.Lock()
	defer c.mu.Unlock()
	_, ok := c.live[id]
	return ok
}

// call records an engine call; returns an error if the fault plan says so.
func (c *Control) call(op string) error {
	c.mu.Lock()
	c.counts[op]++
	n := c.counts[op]
	c.log = append(c.log, op)
	fail := c.failAt[op] == n
	hook := c.Hook
	c.mu.Unlock()
	if hook != nil {
		hook(op, n)
	}
	if fail {
		return fmt.Errorf("fakefaiss: injected failure in %s #%d", op, n)
	}
	return nil
}

func (c *Control) alloc(kind string) int64 {
	c.mu.Lock()
	c.nextID++
	id := c.nextID
	c.live[id] = kind
	c.mu.Unlock()
	return id
}

func (c *Control) free(id int64, kind string) {
	c.mu.Lock()
	if _, ok := c.live[id]; !ok {
		c.misuse(fmt.Sprintf("double free of %s #%d", kind, id))
	} else {
		delete(c.live, id)
		c.closedID[id] = true
	}
	c.mu.Unlock()
}

func (c *Control) use(id int64, op string) {
	c.mu.Lock()
	if _, ok := c.live[id]; !ok {
		c.misuse(fmt.Sprintf("use after free: %s on index #%d", op, id))
	}
	c.mu.Unlock()
}

// ---------------------------------------------------------------------------
// index

type Index interface {
	D() int
	IsTrained() bool
	Ntotal() int64
	MetricType() int
	Train(x []float32) error
	AddWithIDs(x []float32, xids []int64) error
	IsIVFIndex() bool
	ObtainClusterVectorCountsFromIVFIndex(vecIDs []int64) (map[int64]int64, error)
	ObtainClustersWithDistancesFromIVFIndex(x []float32, centroidIDs []int64) ([]int64, []float32, error)
	Search(x []float32, k int64) (distances []float32, labels []int64, err error)
	SearchWithoutIDs(x []float32, k int64, exclude []int64, params json.RawMessage) ([]float32, []int64, error)
	SearchWithIDs(x []float32, k int64, include []int64, params json.RawMessage) ([]float32, []int64, error)
	SearchClustersFromIVFIndex(selector Selector, eligibleCentroidIDs []int64,
		minEligibleCentroids int, k int64, x, centroidDis []float32,
		params json.RawMessage) ([]float32, []int64, error)
	Reconstruct(key int64) ([]float32, error)
	ReconstructBatch(keys []int64, recons []float32) ([]float32, error)
	Close()
	Size() uint64
}

// IndexImpl mirrors go-faiss' concrete index handle.
type IndexImpl struct {
	Index
}

type fakeIndex struct {
	id      int64
	d       int
	metric  int
	ivf     bool
	nlist   int
	nprobe  int
	trained bool
	ids     []int64
	vecs    []float32 // len(ids)*d
	cents   []float32 // nlist*d
	assign  []int     // per vector centroid index
	pos     map[int64]int
}

// ObjectID returns the accounting id of the native object behind idx (harness use).
func ObjectID(idx *IndexImpl) int64 {
	if idx == nil || idx.Index == nil {
		return 0
	}
	return idx.Index.(*fakeIndex).id
}

func IndexFactory(d int, description string, metric int) (*IndexImpl, error) {
	if err := Ctl.call("IndexFactory"); err != nil {
		return nil, err
	}
	fi := &fakeIndex{d: d, metric: metric, pos: map[int64]int{}}
	switch {
	case description == "IDMap2,Flat":
		fi.trained = true
	case strings.HasPrefix(description, "IVF"):
		parts := strings.SplitN(description[3:], ",", 2)
		n, err := strconv.Atoi(parts[0])
		if err != nil || n <= 0 || len(parts) != 2 {
			return nil, fmt.Errorf("fakefaiss: bad index description %q", description)
		}
		switch parts[1] {
		case "Flat", "SQ8", "SQ4":
		default:
			return nil, fmt.Errorf("fakefaiss: bad index description %q", description)
		}
		fi.ivf = true
		fi.nlist = n
		fi.nprobe = 1
	default:
		return nil, fmt.Errorf("fakefaiss: unsupported index description %q", description)
	}
	if d <= 0 {
		return nil, fmt.Errorf("fakefaiss: bad dimension %d", d)
	}
	fi.id = Ctl.alloc("index")
	return &IndexImpl{fi}, nil
}

func SetOMPThreads(n uint) {}

func (f *fakeIndex) D() int            { Ctl.use(f.id, "D"); return f.d }
func (f *fakeIndex) IsTrained() bool   { return f.trained }
func (f *fakeIndex) Ntotal() int64     { Ctl.use(f.id, "Ntotal"); return int64(len(f.ids)) }
func (f *fakeIndex) MetricType() int   { Ctl.use(f.id, "MetricType"); return f.metric }
func (f *fakeIndex) IsIVFIndex() bool  { Ctl.use(f.id, "IsIVFIndex"); return f.ivf }
func (f *fakeIndex) Size() uint64      { Ctl.use(f.id, "Size"); return uint64(64 + 4*len(f.vecs) + 8*len(f.ids)) }
func (f *fakeIndex) Close()            { Ctl.call("Close"); Ctl.free(f.id, "index") }

func (idx *IndexImpl) SetDirectMap(mapType int) error {
	f := idx.Index.(*fakeIndex)
	Ctl.use(f.id, "SetDirectMap")
	if err := Ctl.call("SetDirectMap"); err != nil {
		return err
	}
	if !f.ivf {
		return fmt.Errorf("index is not of ivf type")
	}
	return nil
}

func (idx *IndexImpl) SetNProbe(nprobe int32) {
	f := idx.Index.(*fakeIndex)
	Ctl.use(f.id, "SetNProbe")
	if f.ivf {
		f.nprobe = int(nprobe)
	}
}

func (idx *IndexImpl) GetNProbe() int32 {
	f := idx.Index.(*fakeIndex)
	Ctl.use(f.id, "GetNProbe")
	if !f.ivf {
		return 0
	}
	return int32(f.nprobe)
}

func (f *fakeIndex) Train(x []float32) error {
	Ctl.use(f.id, "Train")
	if err := Ctl.call("Train"); err != nil {
		return err
	}
	if !f.ivf {
		return nil
	}
	n := len(x) / f.d
	if n == 0 {
		return errors.New("fakefaiss: empty training set")
	}
	// deterministic centroids: sort the training vectors lexicographically and
	// take nlist evenly spaced ones.
	order := make([]int, n)
	for i := range order {
		order[i] = i
	}
	sort.SliceStable(order, func(a, b int) bool {
		va, vb := x[order[a]*f.d:(order[a]+1)*f.d], x[order[b]*f.d:(order[b]+1)*f.d]
		for i := range va {
			if va[i] != vb[i] {
				return va[i] < vb[i]
			}
		}
		return false
	})
	f.cents = make([]float32, 0, f.nlist*f.d)
	for c := 0; c < f.nlist; c++ {
		i := order[(c*n)/f.nlist]
		f.cents = append(f.cents, x[i*f.d:(i+1)*f.d]...)
	}
	f.trained = true
	return nil
}

func l2(a, b []float32) float32 {
	var s float32
	for i := range a {
		d := a[i] - b[i]
		s += d * d
	}
	return s
}

func ip(a, b []float32) float32 {
	var s float32
	for i := range a {
		s += a[i] * b[i]
	}
	return s
}

// Distance is the score the stand-in reports for (query, vector) under metric.
func Distance(metric int, q, v []float32) float32 {
	if metric == MetricL2 {
		return l2(q, v)
	}
	return ip(q, v)
}

func (f *fakeIndex) nearestCentroid(v []float32) int {
	best, bd := 0, float32(math.Inf(1))
	for c := 0; c < f.nlist; c++ {
		d := l2(v, f.cents[c*f.d:(c+1)*f.d])
		if d < bd {
			best, bd = c, d
		}
	}
	return best
}

func (f *fakeIndex) AddWithIDs(x []float32, xids []int64) error {
	Ctl.use(f.id, "AddWithIDs")
	if err := Ctl.call("AddWithIDs"); err != nil {
		return err
	}
	if len(xids) == 0 {
		_ = xids[0] // the real binding dereferences &xids[0]
	}
	if !f.trained {
		return errors.New("fakefaiss: index not trained")
	}
	n := len(x) / f.d
	if n != len(xids) {
		return fmt.Errorf("fakefaiss: %d vectors but %d ids", n, len(xids))
	}
	for i := 0; i < n; i++ {
		v := x[i*f.d : (i+1)*f.d]
		f.pos[xids[i]] = len(f.ids)
		f.ids = append(f.ids, xids[i])
		f.vecs = append(f.vecs, v...)
		if f.ivf {
			f.assign = append(f.assign, f.nearestCentroid(v))
		}
	}
	return nil
}

type cand struct {
	id int64
	d  float32
}

func (f *fakeIndex) topk(q []float32, k int64, accept func(i int) bool) ([]float32, []int64) {
	var cs []cand
	for i, id := range f.ids {
		if !accept(i) {
			continue
		}
		cs = append(cs, cand{id, Distance(f.metric, q, f.vecs[i*f.d:(i+1)*f.d])})
	}
	sort.Slice(cs, func(a, b int) bool {
		if cs[a].d != cs[b].d {
			if f.metric == MetricL2 {
				return cs[a].d < cs[b].d
			}
			return cs[a].d > cs[b].d
		}
		return cs[a].id < cs[b].id
	})
	dist := make([]float32, k)
	lab := make([]int64, k)
	pad := float32(math.Inf(1))
	if f.metric != MetricL2 {
		pad = float32(math.Inf(-1))
	}
	for i := int64(0); i < k; i++ {
		if int(i) < len(cs) {
			dist[i], lab[i] = cs[i].d, cs[i].id
		} else {
			dist[i], lab[i] = pad, -1
		}
	}
	return dist, lab
}

// probeLists returns the set of centroid indexes probed for q with nprobe.
func (f *fakeIndex) probeLists(q []float32, nprobe int) map[int]bool {
	type cd struct {
		c int
		d float32
	}
	cds := make([]cd, f.nlist)
	for c := 0; c < f.nlist; c++ {
		cds[c] = cd{c, l2(q, f.cents[c*f.d:(c+1)*f.d])}
	}
	sort.Slice(cds, func(a, b int) bool {
		if cds[a].d != cds[b].d {
			return cds[a].d < cds[b].d
		}
		return cds[a].c < cds[b].c
	})
	rv := map[int]bool{}
	for i := 0; i < nprobe && i < len(cds); i++ {
		rv[cds[i].c] = true
	}
	return rv
}

func (f *fakeIndex) search(op string, q []float32, k int64, sel func(id int64) bool) ([]float32, []int64, error) {
	Ctl.use(f.id, op)
	if err := Ctl.call(op); err != nil {
		return nil, nil, err
	}
	if len(q) != f.d {
		return nil, nil, fmt.Errorf("fakefaiss: query dimension %d != %d", len(q), f.d)
	}
	if k <= 0 {
		return nil, nil, nil
	}
	var lists map[int]bool
	if f.ivf {
		lists = f.probeLists(q, f.nprobe)
	}
	d, l := f.topk(q, k, func(i int) bool {
		if f.ivf && !lists[f.assign[i]] {
			return false
		}
		return sel == nil || sel(f.ids[i])
	})
	return d, l, nil
}

func (f *fakeIndex) Search(x []float32, k int64) ([]float32, []int64, error) {
	return f.search("Search", x, k, nil)
}

func idset(ids []int64) map[int64]bool {
	m := make(map[int64]bool, len(ids))
	for _, id := range ids {
		m[id] = true
	}
	return m
}

func (f *fakeIndex) SearchWithoutIDs(x []float32, k int64, exclude []int64, params json.RawMessage) ([]float32, []int64, error) {
	if params == nil && len(exclude) == 0 {
		return f.search("SearchWithoutIDs", x, k, nil)
	}
	var sel func(int64) bool
	if len(exclude) > 0 {
		ex := idset(exclude)
		sel = func(id int64) bool { return !ex[id] }
	}
	return f.search("SearchWithoutIDs", x, k, sel)
}

func (f *fakeIndex) SearchWithIDs(x []float32, k int64, include []int64, params json.RawMessage) ([]float32, []int64, error) {
	_ = include[0] // the real binding dereferences &indices[0]
	in := idset(include)
	return f.search("SearchWithIDs", x, k, func(id int64) bool { return in[id] })
}

func (f *fakeIndex) ObtainClusterVectorCountsFromIVFIndex(vecIDs []int64) (map[int64]int64, error) {
	Ctl.use(f.id, "ObtainClusterVectorCounts")
	if err := Ctl.call("ObtainClusterVectorCounts"); err != nil {
		return nil, err
	}
	if !f.ivf {
		return nil, fmt.Errorf("index is not an IVF index")
	}
	_ = vecIDs[0]
	rv := map[int64]int64{}
	for _, id := range vecIDs {
		p, ok := f.pos[id]
		if !ok {
			return nil, fmt.Errorf("fakefaiss: unknown id %d", id)
		}
		rv[int64(f.assign[p])]++
	}
	return rv, nil
}

func (f *fakeIndex) ObtainClustersWithDistancesFromIVFIndex(x []float32, centroidIDs []int64) ([]int64, []float32, error) {
	Ctl.use(f.id, "ObtainClustersWithDistances")
	if err := Ctl.call("ObtainClustersWithDistances"); err != nil {
		return nil, nil, err
	}
	if !f.ivf {
		return nil, nil, fmt.Errorf("index is not an IVF index")
	}
	_ = centroidIDs[0]
	type cd struct {
		c int64
		d float32
	}
	var cds []cd
	for _, c := range centroidIDs {
		if c < 0 || int(c) >= f.nlist {
			return nil, nil, fmt.Errorf("fakefaiss: bad centroid %d", c)
		}
		cds = append(cds, cd{c, l2(x, f.cents[int(c)*f.d:(int(c)+1)*f.d])})
	}
	sort.Slice(cds, func(a, b int) bool {
		if cds[a].d != cds[b].d {
			return cds[a].d < cds[b].d
		}
		return cds[a].c < cds[b].c
	})
	ids := make([]int64, len(cds))
	ds := make([]float32, len(cds))
	for i, c := range cds {
		ids[i], ds[i] = c.c, c.d
	}
	return ids, ds, nil
}

func (f *fakeIndex) SearchClustersFromIVFIndex(selector Selector, eligibleCentroidIDs []int64,
	minEligibleCentroids int, k int64, x, centroidDis []float32, params json.RawMessage) ([]float32, []int64, error) {
	Ctl.use(f.id, "SearchClusters")
	if err := Ctl.call("SearchClusters"); err != nil {
		return nil, nil, err
	}
	if !f.ivf {
		return nil, nil, fmt.Errorf("index is not an IVF index")
	}
	s, ok := selector.(*fakeSelector)
	if !ok || s == nil {
		return nil, nil, fmt.Errorf("fakefaiss: nil selector")
	}
	s.use("SearchClusters")
	nprobe := minEligibleCentroids
	if nprobe <= 0 {
		nprobe = f.nprobe
	}
	eligibleCentroidIDs = eligibleCentroidIDs[:nprobe]
	_ = centroidDis[:nprobe]
	lists := map[int]bool{}
	for _, c := range eligibleCentroidIDs {
		lists[int(c)] = true
	}
	if len(x) != f.d {
		return nil, nil, fmt.Errorf("fakefaiss: query dimension %d != %d", len(x), f.d)
	}
	d, l := f.topk(x, k, func(i int) bool {
		return lists[f.assign[i]] && s.accept(f.ids[i])
	})
	return d, l, nil
}

func (f *fakeIndex) Reconstruct(key int64) ([]float32, error) {
	Ctl.use(f.id, "Reconstruct")
	if err := Ctl.call("Reconstruct"); err != nil {
		return nil, err
	}
	p, ok := f.pos[key]
	if !ok {
		return nil, fmt.Errorf("fakefaiss: key %d not found", key)
	}
	return append([]float32(nil), f.vecs[p*f.d:(p+1)*f.d]...), nil
}

func (f *fakeIndex) ReconstructBatch(keys []int64, recons []float32) ([]float32, error) {
	Ctl.use(f.id, "ReconstructBatch")
	if err := Ctl.call("ReconstructBatch"); err != nil {
		return recons, err
	}
	_ = keys[0]
	_ = recons[0]
	if len(recons) < len(keys)*f.d {
		panic("fakefaiss: ReconstructBatch: output buffer too small (native code would overflow)")
	}
	for i, key := range keys {
		p, ok := f.pos[key]
		if !ok {
			return recons, fmt.Errorf("fakefaiss: key %d not found", key)
		}
		copy(recons[i*f.d:(i+1)*f.d], f.vecs[p*f.d:(p+1)*f.d])
	}
	return recons, nil
}

// ---------------------------------------------------------------------------
// serialisation

var magic = []byte("FKFS1")

func WriteIndexIntoBuffer(idx Index) ([]byte, error) {
	if err := Ctl.call("WriteIndexIntoBuffer"); err != nil {
		return nil, err
	}
	var f *fakeIndex
	switch t := idx.(type) {
	case *IndexImpl:
		f = t.Index.(*fakeIndex)
	case *fakeIndex:
		f = t
	}
	Ctl.use(f.id, "WriteIndexIntoBuffer")
	var b bytes.Buffer
	b.Write(magic)
	w := func(v interface{}) { binary.Write(&b, binary.LittleEndian, v) }
	flag := int32(0)
	if f.ivf {
		flag = 1
	}
	w(flag)
	w(int32(f.d))
	w(int32(f.metric))
	w(int32(f.nlist))
	w(int32(f.nprobe))
	w(int64(len(f.ids)))
	w(f.ids)
	w(f.vecs)
	if f.ivf {
		w(f.cents)
		as := make([]int32, len(f.assign))
		for i, a := range f.assign {
			as[i] = int32(a)
		}
		w(as)
	}
	return b.Bytes(), nil
}

func ReadIndexFromBuffer(buf []byte, ioflags int) (*IndexImpl, error) {
	if err := Ctl.call("ReadIndexFromBuffer"); err != nil {
		return nil, err
	}
	if len(buf) < len(magic) || !bytes.Equal(buf[:len(magic)], magic) {
		return nil, errors.New("fakefaiss: not an index buffer")
	}
	// copy: the real engine may mmap, but the harness wants use-after-unmap of
	// the *segment* to be detected by zapx-level reads, not here.
	r := bytes.NewReader(append([]byte(nil), buf[len(magic):]...))
	var flag, d, metric, nlist, nprobe int32
	var n int64
	rd := func(v interface{}) error { return binary.Read(r, binary.LittleEndian, v) }
	for _, p := range []interface{}{&flag, &d, &metric, &nlist, &nprobe, &n} {
		if err := rd(p); err != nil {
			return nil, fmt.Errorf("fakefaiss: truncated index buffer: %v", err)
		}
	}
	if n < 0 || d <= 0 || n > int64(len(buf)) {
		return nil, errors.New("fakefaiss: corrupt index buffer")
	}
	f := &fakeIndex{d: int(d), metric: int(metric), ivf: flag == 1, nlist: int(nlist), nprobe: int(nprobe), trained: true, pos: map[int64]int{}}
	f.ids = make([]int64, n)
	f.vecs = make([]float32, n*int64(d))
	if err := rd(f.ids); err != nil {
		return nil, fmt.Errorf("fakefaiss: truncated index buffer: %v", err)
	}
	if err := rd(f.vecs); err != nil {
		return nil, fmt.Errorf("fakefaiss: truncated index buffer: %v", err)
	}
	if f.ivf {
		f.cents = make([]float32, int(nlist)*int(d))
		if err := rd(f.cents); err != nil {
			return nil, fmt.Errorf("fakefaiss: truncated index buffer: %v", err)
		}
		as := make([]int32, n)
		if err := rd(as); err != nil {
			return nil, fmt.Errorf("fakefaiss: truncated index buffer: %v", err)
		}
		f.assign = make([]int, n)
		for i, a := range as {
			f.assign[i] = int(a)
		}
	}
	if r.Len() != 0 {
		return nil, errors.New("fakefaiss: trailing bytes in index buffer")
	}
	for i, id := range f.ids {
		f.pos[id] = i
	}
	f.id = Ctl.alloc("index")
	return &IndexImpl{f}, nil
}

// ---------------------------------------------------------------------------
// selectors

type Selector interface {
	Delete()
	isSelector()
}

type fakeSelector struct {
	id  int64
	set map[int64]bool
	not bool
}

func (s *fakeSelector) isSelector() {}

func (s *fakeSelector) Delete() {
	if s == nil {
		return
	}
	Ctl.free(s.id, "selector")
}

func (s *fakeSelector) use(op string) {
	Ctl.mu.Lock()
	if _, ok := Ctl.live[s.id]; !ok {
		Ctl.misuse(fmt.Sprintf("use after free: %s with selector #%d", op, s.id))
	}
	Ctl.mu.Unlock()
}

func (s *fakeSelector) accept(id int64) bool { return s.set[id] != s.not }

func NewIDSelectorBatch(indices []int64) (Selector, error) {
	if err := Ctl.call("NewIDSelectorBatch"); err != nil {
		return nil, err
	}
	_ = indices[0] // the real binding dereferences &indices[0]
	return &fakeSelector{id: Ctl.alloc("selector"), set: idset(indices)}, nil
}

func NewIDSelectorNot(exclude []int64) (Selector, error) {
	if err := Ctl.call("NewIDSelectorNot"); err != nil {
		return nil, err
	}
	_ = exclude[0] // the real binding dereferences &indices[0]
	return &fakeSelector{id: Ctl.alloc("selector"), set: idset(exclude), not: true}, nil
}

// NormalizeVector normalises in place (L2).
func NormalizeVector(v []float32) []float32 {
	var s float64
	for _, x := range v {
		s += float64(x) * float64(x)
	}
	if s == 0 {
		return v
	}
	n := float32(math.Sqrt(s))
	for i := range v {
		v[i] /= n
	}
	return v
}
