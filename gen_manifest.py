#!/usr/bin/env python3
"""Regenerates MANIFEST.json from the table below (single source of truth)."""
import json, subprocess

LEVEL = {
 # id: (category, technique, text, note, design_ref)
 "C02": ("exploration", "bounded-exhaustive input enumeration on the implementation vs. reference model",
         "every batch of the stored-field alphabet is built by the real code; every document number is visited completely and with a visitor stopping after each callback index; DocID, Count, Fields and DocNumbers for all subsets of a probe-id set are compared with the reference model; exhaustive within the bounds",
         "reference model in harness/ref; inputs only inside the alphabet", "4 C02"),
 "C03": ("exploration", "bounded-exhaustive enumeration of inputs x configurations x visiting histories on the implementation",
         "every batch of the doc-value alphabet x doc-value chunk size x segment kind (in-memory, mmap, merged) x field list x every visiting sequence up to length L x three visit-state disciplines (fresh, threaded, alternated across segments) is executed on the real code and every callback set compared with the reference; exhaustive within the bounds",
         "reference model in harness/ref; LegacyChunkMode set through the exported variable", "4 C03"),
 "C12": ("exploration", "bounded-exhaustive input enumeration on the implementation vs. reference model",
         "every batch of the synonym alphabet (N<=3, 15 document kinds) is built under both build tags, read in memory and after persist+open, and every (thesaurus, term, exclusion bitmap) lookup compared with the reference; exhaustive within the bounds",
         "reference model in harness/ref; enumeration order of a synonym field's entries is owned by the harness' field objects", "4 C12/C13"),
 "C04": ("exploration", "bounded-exhaustive input enumeration; differential oracle in-memory vs. persisted+opened vs. reference; independent footer/CRC decoder",
         "a cross-section of every batch family x chunk modes x both build tags: Persist and WriteTo bytes compared, footer and CRC decoded independently, Open's reported configuration compared, and the complete query surface of the re-opened segment compared with the in-memory one and the reference; exhaustive within the bounds",
         "reference model in harness/ref; footer decoder in props/c04.go written from zap.md; vector answers come from the stand-in engine (DESIGN 3.4)", "4 C04"),
 "C05": ("model_checking", "explicit-state exploration of the merge state space on the implementation (states deduplicated by canonical key, successors by replay)",
         "every merge of the bounded state space (menu of 7 segment shapes x every drop vector x provenance x chunk modes, depth <= 2/3) is executed on the real code; in every reached state the renumbering maps, reported size, Count, Fields, stored fields, DocID and DocNumbers are compared with the reference of the survivors",
         "reference model in harness/ref; state-key deduplication argument in DESIGN.md 4 C05/C06", "4 C05/C06"),
 "C06": ("model_checking", "explicit-state exploration of the merge state space on the implementation (states deduplicated by canonical key, successors by replay)",
         "same state space as C05; in every reached state every postings list (frequency, norm, locations with field names), the dictionary and all doc values of the merged segment are compared with the reference of the survivors",
         "reference model in harness/ref; state-key deduplication argument in DESIGN.md 4 C05/C06", "4 C05/C06"),
 "C13": ("model_checking", "explicit-state exploration of the merge state space on the implementation (states deduplicated by canonical key, successors by replay)",
         "every merge of the bounded synonym state space (6 segment shapes x every drop vector x provenance, depth <= 2/3) is executed on the real code and every (thesaurus, term, exclusion bitmap) lookup on the merged segment compared with the reference of the surviving definitions",
         "reference model in harness/ref", "4 C12/C13"),
 "C07": ("exploration", "bounded-exhaustive enumeration of inputs x call histories (tree of all Next/Advance sequences, successor = replayed prefix + one call) on the implementation vs. a sorted-slice reference",
         "every postings set and exclusion set over N<=5/7 documents x chunk sizes x encodings (general, single-hit) x segment kinds x all detail-flag combinations x every maximal Next/Advance call sequence, ReplaceActual with every subset, and every ordered pair/triple of preallocation reuse over a 20-list family, is executed on the real iterator and compared call by call with a sorted slice; exhaustive within the bounds",
         "reference = sorted slice of the reference model's hits; only requested details are compared", "4 C07"),
 "C08": ("exploration", "bounded-exhaustive enumeration of term sets x encodings histories x automata x key ranges on the implementation vs. independently computed acceptance",
         "every subset of a 6-term universe x postings-size patterns x provenance (built / opened / merged once / merged twice) x 25 automata x every well-formed key range is enumerated on the real dictionary; terms, order, counts, Contains and Cardinality are compared with independently computed answers; the space is enumerated completely",
         "acceptance oracles: Go strings/regexp and an edit-distance function; vellum's automata are trusted only as inputs", "4 C08"),
 "C17": ("fault_enumeration", "exhaustive enumeration of write-fault points (every byte offset) on the real Persist / WriteTo / Merge paths",
         "for 8 inputs the fault-free run is recorded and then one run is made per fault point: the destination writer failing at every byte offset (two failure modes) for WriteTo, and a real torn write at every byte offset (RLIMIT_FSIZE) for Persist and Merge with a 16-byte merge buffer; each must return an error and leave no file; the fault-free run must produce a complete, correct file",
         "Sync/Close failures are not injected; RLIMIT_FSIZE tears the write at the exact byte", "4 C17"),
 "C18": ("fault_enumeration", "exhaustive enumeration of cancellation points (every observable step of the merge) on the real Merge",
         "for every merge input the fault-free run is recorded and one merge is run per closing point (before the call, inside every observable write step / engine call, never); each run must end in success with a complete correct file or in the closed error with no file; both build tags",
         "cancellation is observed only at polls of the merge goroutine, so closing inside observable step j covers every real closing time between steps j and j+1 (DESIGN 4 C18)", "4 C18"),
 "C14": ("exploration", "bounded-exhaustive input enumeration on the implementation (vectors tag, stand-in engine) vs. reference top-k oracle",
         "every small vector batch x metric x exclusion bitmap x query x k x eligible subset x requiresFiltering, in memory and re-opened, is searched through the real zapx code and the result set checked against an exact top-k oracle that tolerates ties; a 1200-vector lattice exercises the clustered (IVF) paths and both selector kinds with a soundness oracle; exhaustive within the bounds",
         "trusted base: fidelity of the fakefaiss stand-in to the go-faiss contract (DESIGN 3.4); real FAISS not available offline", "4 C14"),
 "C15": ("model_checking", "explicit-state exploration of the merge state space on the implementation (states deduplicated by canonical key, successors by replay)",
         "every merge of the bounded vector state space (6 segment shapes x every drop vector x provenance, depth <= 2/3) is executed on the real code under the vectors tag; in every reached state exact searches and the vector-count statistic of the merged segment are compared with the reference over the survivors, and the engine's live-object count must return to 0",
         "trusted base: fidelity of the fakefaiss stand-in (DESIGN 3.4)", "4 C15"),
 "C19": ("fault_enumeration", "exhaustive enumeration of engine-call fault points (the n-th call of every engine operation) on the real build / merge paths",
         "for 5 build/merge scenarios the fault-free engine call log is recorded and one run is made per (operation, n): the run must return an error or a segment in which every reference vector is retrievable, must leave no file on a failed merge and must release every native index",
         "trusted base: the fakefaiss stand-in and its fault plan (DESIGN 3.4)", "4 C19"),
 "C11": ("model_checking", "stateless model checking of the implementation under a controlled scheduler (preemption-bounded DFS over choice sequences at lock / pool / callback points), plus a separate free-running race-detector pass",
         "all interleavings of 2 (and preemption-bounded interleavings of 3) real reader goroutines over one shared segment, for every pair/triple of a 10-operation menu and every sequential prefix history of length <= 1, are executed on the real code; each call must return its sequential answer, callback bytes must stay stable, no pooled object may have two owners; failing schedules are replayed twice",
         "scheduling points at synchronisation operations only; data races between them are left to the free-running -race pass (dynamic detection, reported as such)", "4 C11"),
 "C20": ("model_checking", "explicit-state enumeration of reference-operation histories on a real opened segment, plus stateless model checking of concurrent holders under a controlled scheduler and a free-running race-detector pass",
         "every AddRef/DecRef/Close history up to the bound is executed on a real mmap-opened segment with a full read in every state and /proc inspection of mapping and descriptor; concurrent holders are explored over all interleavings (2 holders) / preemption-bounded (3 holders) at the segment's lock points",
         "holders only take references while holding one; /proc/self/maps and /proc/self/fd are the release oracle; reference count read through a verif-tagged hook", "4 C20"),
 "C10": ("model_checking", "exhaustive enumeration of build histories with a deterministic pool model (environment-deviation bounded) and stateless model checking of concurrent builds under a controlled scheduler, plus real-pool and race-detector passes",
         "every sequence of builds over an 8/10-item batch menu up to length 3/4 is run in one process with maximal builder reuse forced (and the pool's other legal answers explored as bounded deviations), and every pair/triple of concurrent builds is explored over all interleavings at pool operations; every build must equal the reference of its own batch",
         "sync.Pool replaced at build time by a deterministic model in the scheduler flavours; the real pool is exercised with the GC disabled", "4 C10"),
 "C16": ("model_checking", "explicit-state breadth-first search over event histories of the real vector cache (states deduplicated by a canonical key read through verif hooks, successors by replay), plus stateless model checking of concurrent searchers under a controlled scheduler and a free-running race-detector pass",
         "every history of open/search/filtered-search/close-handle/expiry-tick/segment-close events up to the depth bound is executed on the real cache; in every state each search must equal the reference for its own exclusion bitmap, every open handle's native index must be alive, and after segment close nothing may be alive; concurrent searchers with expiry ticks are explored preemption-bounded",
         "trusted base: fakefaiss stand-in (DESIGN 3.4); expiry pass driven through the verif hook instead of the 1 s timer", "4 C16"),
 "C09": ("exploration", "bounded-exhaustive enumeration of written files decoded by an independent reader (translation-validation style), plus a frozen corpus written by the pinned commit re-read on every run",
         "every file of a curated enumeration (all batch families, merges up to depth 2, synonym merges, vector framing) is decoded by a reader written only from the documented v16 layout and compared with the reference of what went in; 33 files written by the pinned commit are opened by the current code and must answer exactly as frozen",
         "the independent decoder (harness/dec16) and the frozen corpus (/verif/corpus) are the trusted base; vector index bytes are the stand-in's", "4 C09"),
 "C01": ("exploration", "bounded-exhaustive input enumeration on the implementation vs. reference model",
         "every batch of a stated finite alphabet (cell menu per document x field, N<=3; column and chunk-boundary families) x chunk modes x both build tags is built by the real code and its complete term/postings content compared with an independent reference model; exhaustive within the bounds, no sampling",
         "reference model in harness/ref; inputs only inside the alphabet; Go map order not enumerable (semantic oracle)", "4 C01"),
}
NOT_YET = "check not built yet in this round (design in DESIGN.md section 4); will be claimed once its exhaustive exploration exists"

def main():
    props = [json.loads(l) for l in open("/verif/properties.jsonl")]
    checks, na = [], []
    for p in props:
        i = p["id"]
        if i in LEVEL:
            cat, tech, text, note, ref = LEVEL[i]
            checks.append({
                "property_id": i,
                "quick_cmd": f"./check.sh {i} quick",
                "thorough_cmd": f"./check.sh {i} thorough",
                "evidence_file": f"/verif/evidence/{i}.json",
                "replay_cmd_template": "./check.sh replay {path}",
                "engine": "vcheck",
                "level_claimed": {"category": cat, "text": text, "design_ref": "DESIGN.md section " + ref},
                "level_note": note,
                "technique": tech,
            })
        else:
            na.append({"property_id": i, "reason": NOT_YET})
    commits = []
    try:
        out = subprocess.run(["git", "-C", "/repo", "log", "--format=%H %s"], capture_output=True, text=True).stdout
        commits = [l.split()[0] for l in out.splitlines() if " verif:" in l or " hooks:" in l]
    except Exception:
        pass
    m = {
        "version": 1,
        "setup_cmd": "./check.sh setup",
        "hooks": {
            "guard": "verif",
            "enable": "go build -tags verif (plus -tags vectors with the fakefaiss replace, plus -overlay from harness/instrument for the scheduler flavours)",
            "baseline_off_cmd": "cd /repo && go test -mod=mod -json -vet=off -count=1 -timeout 25m ./...",
            "source_commits": commits,
            "add_only": True,
        },
        "engines": [
            {"name": "vcheck", "path": "/verif/harness", "serves_properties": sorted(LEVEL),
             "kind_free_text": "hand-written bounded-exhaustive explorers over the real zapx code: small-scope input/history enumerator, deviation (fault) enumerator, cooperative scheduler with preemption-bounded DFS; worker sub-processes sharded over 16 cores"},
        ],
        "checks": checks,
        "not_applicable": na,
        "notes": "All checks run the implementation in /repo's working tree (rebuilt on every invocation). See DESIGN.md.",
    }
    json.dump(m, open("/verif/MANIFEST.json", "w"), indent=1)
    print("claimed", len(checks), "not_applicable", len(na))

main()
