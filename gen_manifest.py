#!/usr/bin/env python3
"""Regenerates MANIFEST.json from the table below (single source of truth)."""
import json, subprocess

LEVEL = {
 # id: (category, technique, text, note, design_ref)
 "C01": ("exploration", "bounded-exhaustive input enumeration on the implementation vs. reference model",
         "every batch of a stated finite alphabet (cell menu per document x field, N<=3; column and chunk-boundary families) x chunk modes x both build tags is built by the real code and its complete term/postings content compared with an independent reference model; exhaustive within the bounds, no sampling",
         "reference model in harness/ref; inputs only inside the alphabet; Go map order not enumerable (semantic oracle)", "4 C01"),
}
NOT_YET = "check not built yet in this round (design in DESIGN.md section 4); will be claimed once its exhaustive exploration exists"

def main():
    props = [json.loads(l) for l in open("/verif/properties.jsonl")]
    checks, na = [], []
    for p in props:
        i = p["id"]
        if i in LEVEL:
            cat, tech, text, note, ref = LEVEL[i]
            checks.append({
                "property_id": i,
                "quick_cmd": f"./check.sh {i} quick",
                "thorough_cmd": f"./check.sh {i} thorough",
                "evidence_file": f"/verif/evidence/{i}.json",
                "replay_cmd_template": "./check.sh replay {path}",
                "engine": "vcheck",
                "level_claimed": {"category": cat, "text": text, "design_ref": "DESIGN.md section " + ref},
                "level_note": note,
                "technique": tech,
            })
        else:
            na.append({"property_id": i, "reason": NOT_YET})
    commits = []
    try:
        out = subprocess.run(["git", "-C", "/repo", "log", "--format=%H %s"], capture_output=True, text=True).stdout
        commits = [l.split()[0] for l in out.splitlines() if " verif:" in l or " hooks:" in l]
    except Exception:
        pass
    m = {
        "version": 1,
        "setup_cmd": "./check.sh setup",
        "hooks": {
            "guard": "verif",
            "enable": "go build -tags verif (plus -tags vectors with the fakefaiss replace, plus -overlay from harness/instrument for the scheduler flavours)",
            "baseline_off_cmd": "cd /repo && go test -mod=mod -json -vet=off -count=1 -timeout 25m ./...",
            "source_commits": commits,
            "add_only": True,
        },
        "engines": [
            {"name": "vcheck", "path": "/verif/harness", "serves_properties": sorted(LEVEL),
             "kind_free_text": "hand-written bounded-exhaustive explorers over the real zapx code: small-scope input/history enumerator, deviation (fault) enumerator, cooperative scheduler with preemption-bounded DFS; worker sub-processes sharded over 16 cores"},
        ],
        "checks": checks,
        "not_applicable": na,
        "notes": "All checks run the implementation in /repo's working tree (rebuilt on every invocation). See DESIGN.md.",
    }
    json.dump(m, open("/verif/MANIFEST.json", "w"), indent=1)
    print("claimed", len(checks), "not_applicable", len(na))

main()
