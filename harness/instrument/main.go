// instrument writes a `go build -overlay` description that compiles /repo's
// current non-test Go files with
//   - import "sync"  replaced by  sync "verif/shim/vsync"  (same identifiers), and
//   - every `go f(x)` statement replaced by  vsync.Go("<source>", func() { f(x) }).
//
// Nothing else is rewritten and no zapx identifier is named, so the rewrite
// survives refactorings and preserves any edit made to /repo before a check.
package main

import (
	"bytes"
	"encoding/json"
	"flag"
	"fmt"
	"go/ast"
	"go/format"
	"go/parser"
	"go/printer"
	"go/token"
	"os"
	"path/filepath"
	"regexp"
	"strconv"
	"strings"
)

const shimPath = "verif/shim/vsync"
const osShimPath = "verif/shim/vos"
const atomicShimPath = "verif/shim/vatomic"

// functions of sync/atomic that verif/shim/vatomic provides (keep in sync with its Provided map)
var vatomicProvided = func() map[string]bool {
	m := map[string]bool{"Value": true, "Int32": true, "Int64": true, "Uint32": true, "Uint64": true, "Uintptr": true, "Bool": true,
		"LoadPointer": true, "StorePointer": true, "SwapPointer": true, "CompareAndSwapPointer": true}
	for _, t := range []string{"Int32", "Int64", "Uint32", "Uint64", "Uintptr"} {
		for _, op := range []string{"Load", "Store", "Add", "Swap", "CompareAndSwap"} {
			m[op+t] = true
		}
	}
	return m
}()

// statCounter: functions that only maintain write-only statistics counters; their atomic
// operations get no scheduling point (see vatomic)
var statCounter = regexp.MustCompile(`(?i)bytes(read|written)`)

// identifiers of package os that verif/shim/vos provides (keep in sync with vos.Provided)
var vosProvided = map[string]bool{"O_RDONLY": true, "O_WRONLY": true, "O_RDWR": true, "O_APPEND": true, "O_CREATE": true,
	"O_EXCL": true, "O_SYNC": true, "O_TRUNC": true, "FileMode": true, "OpenFile": true, "Remove": true}

func main() {
	repo := flag.String("repo", "/repo", "repository root")
	out := flag.String("out", "", "output directory")
	_ = flag.String("tags", "", "(informational)")
	flag.Parse()
	if *out == "" {
		fmt.Fprintln(os.Stderr, "need -out")
		os.Exit(2)
	}
	files, err := filepath.Glob(filepath.Join(*repo, "*.go"))
	if err != nil {
		panic(err)
	}
	replace := map[string]string{}
	nGo, nSync, nRange, nOS, nAtomic := 0, 0, 0, 0, 0
	// pass 1: package-level map variables (syntactic: `var x = make(map[K]V...)`,
	// `var x map[K]V`, `var x = map[K]V{...}`) - test files excluded
	pkgMaps := map[string]bool{}
	for _, path := range files {
		if strings.HasSuffix(path, "_test.go") {
			continue
		}
		f, err := parser.ParseFile(token.NewFileSet(), path, nil, 0)
		if err != nil {
			continue
		}
		for _, d := range f.Decls {
			gd, ok := d.(*ast.GenDecl)
			if !ok || gd.Tok != token.VAR {
				continue
			}
			for _, sp := range gd.Specs {
				vs := sp.(*ast.ValueSpec)
				for i, name := range vs.Names {
					isMap := false
					if _, ok := vs.Type.(*ast.MapType); ok {
						isMap = true
					}
					if i < len(vs.Values) {
						switch v := vs.Values[i].(type) {
						case *ast.CallExpr:
							if id, ok := v.Fun.(*ast.Ident); ok && id.Name == "make" && len(v.Args) > 0 {
								if _, ok := v.Args[0].(*ast.MapType); ok {
									isMap = true
								}
							}
						case *ast.CompositeLit:
							if _, ok := v.Type.(*ast.MapType); ok {
								isMap = true
							}
						}
					}
					if isMap {
						pkgMaps[name.Name] = true
					}
				}
			}
		}
	}
	for _, path := range files {
		if strings.HasSuffix(path, "_test.go") {
			continue
		}
		fset := token.NewFileSet()
		f, err := parser.ParseFile(fset, path, nil, parser.ParseComments)
		if err != nil {
			fmt.Fprintf(os.Stderr, "instrument: %v\n", err)
			os.Exit(1)
		}
		changed := false
		syncName := ""
		for _, imp := range f.Imports {
			p, _ := strconv.Unquote(imp.Path.Value)
			if p == "sync" {
				if imp.Name != nil && imp.Name.Name != "sync" {
					fmt.Fprintf(os.Stderr, "instrument: %s imports sync as %q: left alone\n", path, imp.Name.Name)
					continue
				}
				imp.Path.Value = strconv.Quote(shimPath)
				imp.Name = ast.NewIdent("sync")
				syncName = "sync"
				changed = true
				nSync++
			}
		}
		// import "os" -> vos, only where every os.X the file uses is provided by the shim
		for _, imp := range f.Imports {
			p, _ := strconv.Unquote(imp.Path.Value)
			if p != "os" || (imp.Name != nil && imp.Name.Name != "os") {
				continue
			}
			ok, uses := true, 0
			ast.Inspect(f, func(n ast.Node) bool {
				if se, isSel := n.(*ast.SelectorExpr); isSel {
					if id, isID := se.X.(*ast.Ident); isID && id.Name == "os" && id.Obj == nil {
						uses++
						if !vosProvided[se.Sel.Name] {
							ok = false
						}
					}
				}
				return true
			})
			if ok && uses > 0 {
				imp.Path.Value = strconv.Quote(osShimPath)
				imp.Name = ast.NewIdent("os")
				changed = true
				nOS++
			}
		}
		// import "sync/atomic" -> vatomic (operations become scheduling points), only where
		// every atomic.X the file uses is provided by the shim
		for _, imp := range f.Imports {
			p, _ := strconv.Unquote(imp.Path.Value)
			if p != "sync/atomic" || (imp.Name != nil && imp.Name.Name != "atomic") {
				continue
			}
			ok, uses := true, 0
			ast.Inspect(f, func(n ast.Node) bool {
				if se, isSel := n.(*ast.SelectorExpr); isSel {
					if id, isID := se.X.(*ast.Ident); isID && id.Name == "atomic" && id.Obj == nil {
						uses++
						if !vatomicProvided[se.Sel.Name] {
							ok = false
						}
					}
				}
				return true
			})
			if !ok || uses == 0 {
				continue
			}
			imp.Path.Value = strconv.Quote(atomicShimPath)
			imp.Name = ast.NewIdent("atomic")
			changed = true
			nAtomic++
			// statistics counters: no scheduling point (by the variable operated on ...)
			ast.Inspect(f, func(n ast.Node) bool {
				ce, isCall := n.(*ast.CallExpr)
				if !isCall || len(ce.Args) == 0 {
					return true
				}
				se, isSel := ce.Fun.(*ast.SelectorExpr)
				if !isSel {
					return true
				}
				if id, isID := se.X.(*ast.Ident); !isID || id.Name != "atomic" || id.Obj != nil || strings.HasPrefix(se.Sel.Name, "Stat") || strings.HasSuffix(se.Sel.Name, "Pointer") {
					return true
				}
				var arg bytes.Buffer
				printer.Fprint(&arg, fset, ce.Args[0])
				if statCounter.MatchString(arg.String()) {
					se.Sel = ast.NewIdent("Stat" + se.Sel.Name)
				}
				return true
			})
			// (... and by the enclosing function)
			for _, d := range f.Decls {
				fd, isFn := d.(*ast.FuncDecl)
				if !isFn || fd.Body == nil || !statCounter.MatchString(fd.Name.Name) {
					continue
				}
				ast.Inspect(fd.Body, func(n ast.Node) bool {
					if se, isSel := n.(*ast.SelectorExpr); isSel {
						if id, isID := se.X.(*ast.Ident); isID && id.Name == "atomic" && id.Obj == nil {
							switch {
							case strings.HasPrefix(se.Sel.Name, "Stat"):
							case strings.HasPrefix(se.Sel.Name, "Load"), strings.HasPrefix(se.Sel.Name, "Store"), strings.HasPrefix(se.Sel.Name, "Add"),
								strings.HasPrefix(se.Sel.Name, "Swap"), strings.HasPrefix(se.Sel.Name, "CompareAndSwap"):
								if !strings.HasSuffix(se.Sel.Name, "Pointer") {
									se.Sel = ast.NewIdent("Stat" + se.Sel.Name)
								}
							}
						}
					}
					return true
				})
			}
		}
		// go statements
		hasGo := false
		ast.Inspect(f, func(n ast.Node) bool {
			if _, ok := n.(*ast.GoStmt); ok {
				hasGo = true
			}
			return true
		})
		if hasGo {
			pkg := syncName
			if pkg == "" {
				pkg = "vsyncshim"
			}
			rewriteGo(fset, f, pkg, &nGo)
			if syncName == "" {
				addImport(f, pkg, shimPath)
			}
			changed = true
		}
		// range over package-level maps -> ascending key order
		if n := rewriteRanges(f, pkgMaps); n > 0 {
			nRange += n
			if syncName == "" && !hasGo {
				addImport(f, "vsyncshim", shimPath)
			}
			changed = true
		}
		if !changed {
			continue
		}
		var buf bytes.Buffer
		if err := format.Node(&buf, fset, f); err != nil {
			fmt.Fprintf(os.Stderr, "instrument: printing %s: %v\n", path, err)
			os.Exit(1)
		}
		dst := filepath.Join(*out, filepath.Base(path))
		if err := os.WriteFile(dst, buf.Bytes(), 0644); err != nil {
			panic(err)
		}
		replace[path] = dst
	}
	ov, _ := json.MarshalIndent(map[string]interface{}{"Replace": replace}, "", " ")
	if err := os.WriteFile(filepath.Join(*out, "overlay.json"), ov, 0644); err != nil {
		panic(err)
	}
	fmt.Printf("instrument: %d files rewritten (%d sync imports, %d go statements, %d map ranges ordered, %d os imports, %d atomic imports)\n", len(replace), nSync, nGo, nRange, nOS, nAtomic)
}

func addImport(f *ast.File, name, path string) {
	spec := &ast.ImportSpec{Name: ast.NewIdent(name), Path: &ast.BasicLit{Kind: token.STRING, Value: strconv.Quote(path)}}
	for _, d := range f.Decls {
		if gd, ok := d.(*ast.GenDecl); ok && gd.Tok == token.IMPORT {
			gd.Specs = append(gd.Specs, spec)
			f.Imports = append(f.Imports, spec)
			return
		}
	}
	gd := &ast.GenDecl{Tok: token.IMPORT, Specs: []ast.Spec{spec}}
	f.Decls = append([]ast.Decl{gd}, f.Decls...)
	f.Imports = append(f.Imports, spec)
}

// rewriteGo replaces `go call` by `pkg.Go("<src>", func() { call })` in every block.
func rewriteGo(fset *token.FileSet, f *ast.File, pkg string, n *int) {
	var fix func(list []ast.Stmt)
	fix = func(list []ast.Stmt) {
		for i, st := range list {
			gs, ok := st.(*ast.GoStmt)
			if !ok {
				continue
			}
			var src bytes.Buffer
			printer.Fprint(&src, fset, gs.Call.Fun)
			text := src.String()
			if strings.HasPrefix(text, "func") {
				text = "func literal"
			}
			call := &ast.CallExpr{
				Fun: &ast.SelectorExpr{X: ast.NewIdent(pkg), Sel: ast.NewIdent("Go")},
				Args: []ast.Expr{
					&ast.BasicLit{Kind: token.STRING, Value: strconv.Quote(text)},
					&ast.FuncLit{Type: &ast.FuncType{Params: &ast.FieldList{}}, Body: &ast.BlockStmt{List: []ast.Stmt{&ast.ExprStmt{X: gs.Call}}}},
				},
			}
			list[i] = &ast.ExprStmt{X: call}
			*n++
		}
	}
	ast.Inspect(f, func(node ast.Node) bool {
		switch b := node.(type) {
		case *ast.BlockStmt:
			fix(b.List)
		case *ast.CaseClause:
			fix(b.Body)
		case *ast.CommClause:
			fix(b.Body)
		}
		return true
	})
}

// rewriteRanges turns `for k, v := range M { body }` (M a package-level map) into
//
//	for _, k := range shim.SortedKeys(M) { v := M[k]; body }
//
// keeping break/continue/labels intact. Only the := form with identifier operands
// is handled (others are left alone).
func rewriteRanges(f *ast.File, pkgMaps map[string]bool) int {
	pkg := "vsyncshim"
	for _, imp := range f.Imports {
		if p, _ := strconv.Unquote(imp.Path.Value); p == shimPath && imp.Name != nil {
			pkg = imp.Name.Name
		}
	}
	n := 0
	ast.Inspect(f, func(node ast.Node) bool {
		rs, ok := node.(*ast.RangeStmt)
		if !ok || rs.Tok != token.DEFINE {
			return true
		}
		m, ok := rs.X.(*ast.Ident)
		if !ok || !pkgMaps[m.Name] {
			return true
		}
		keyName := "vsyncKey"
		if k, ok := rs.Key.(*ast.Ident); ok && k.Name != "_" {
			keyName = k.Name
		}
		var pre []ast.Stmt
		if v, ok := rs.Value.(*ast.Ident); ok && v.Name != "_" {
			pre = append(pre, &ast.AssignStmt{Lhs: []ast.Expr{ast.NewIdent(v.Name)}, Tok: token.DEFINE,
				Rhs: []ast.Expr{&ast.IndexExpr{X: ast.NewIdent(m.Name), Index: ast.NewIdent(keyName)}}})
			pre = append(pre, &ast.AssignStmt{Lhs: []ast.Expr{ast.NewIdent("_")}, Tok: token.ASSIGN, Rhs: []ast.Expr{ast.NewIdent(v.Name)}})
		}
		rs.Key = ast.NewIdent("_")
		rs.Value = ast.NewIdent(keyName)
		rs.X = &ast.CallExpr{Fun: &ast.SelectorExpr{X: ast.NewIdent(pkg), Sel: ast.NewIdent("SortedKeys")}, Args: []ast.Expr{ast.NewIdent(m.Name)}}
		pre = append([]ast.Stmt{&ast.AssignStmt{Lhs: []ast.Expr{ast.NewIdent("_")}, Tok: token.ASSIGN, Rhs: []ast.Expr{ast.NewIdent(keyName)}}}, pre...)
		rs.Body.List = append(pre, rs.Body.List...)
		n++
		return true
	})
	return n
}
