// Package sched is the controlled scheduler of the harness: a stateless,
// deviation-bounded depth-first exploration of all interleavings of a small set
// of real goroutines ("tasks") at the synchronisation operations the code under
// test really uses. The code under test reaches it through the drop-in
// replacements in verif/shim/vsync, selected by build-time import rewriting
// (harness/instrument); nothing in the logic of the code under test is changed.
//
// Exactly one task runs at a time (baton passing); every hooked operation is a
// scheduling point at which the explorer decides which enabled task continues.
// Environment answers that the real primitive leaves open (which object a
// sync.Pool hands out) are choice points as well.
package sched

import (
	"fmt"
	"regexp"
	"runtime/debug"
	"strings"
	"sync"
)

// Kind of a recorded choice point.
const (
	KindSched = 0 // which task runs next
	KindEnv   = 1 // environment answer (deviation if != 0)
)

type point struct {
	kind        int
	n           int  // number of alternatives
	chosen      int  // alternative taken
	runningHere bool // KindSched: alternative 0 is the running task, still enabled
	desc        string
}

type task struct {
	id      int
	name    string
	wake    chan struct{}
	done    bool
	blocked func() bool // non-nil while blocked: returns true when it can proceed
	what    string
}

type abortSignal struct{}

// Exec is one execution (one schedule).
type Exec struct {
	tasks    []*task
	cur      *task
	prefix   []int
	points   []point
	finished chan struct{}
	aborted  bool
	deadlock bool
	diverged string
	failure  string
	// per-execution models of the synchronisation objects
	Mutexes map[interface{}]*MutexState
	Pools   map[interface{}]*PoolState
	// observations recorded by the harness body (compared for replay determinism)
	Obs []string
	// SpawnFilter decides whether a spawned goroutine (by its source text) runs as a
	// task (true) or is left out (false, e.g. a timer loop driven explicitly instead).
	SpawnFilter func(src string) bool
	Faults      []string // ownership faults etc. recorded by the shims
	inline      bool
	steps       int
	maxSteps    int
	wg          sync.WaitGroup
	envOff      int
}

// Aborted reports that the execution is being torn down: hooked operations must
// then do nothing (tasks are unwinding).
func (e *Exec) Aborted() bool { return e.aborted }

// MutexState models sync.Mutex / sync.RWMutex.
type MutexState struct {
	Writer  int // task id + 1 holding the write lock, 0 = none
	Readers map[int]int
	// WaitingWriters counts tasks blocked in RWMutex.Lock: as in sync.RWMutex, a pending
	// writer makes every NEW RLock wait (also one of a task that already holds a read
	// lock - a recursive read lock then deadlocks, as it does in reality).
	WaitingWriters int
}

// PoolState models sync.Pool as a deterministic stack with ownership tracking.
type PoolState struct {
	Items []interface{}
	In    map[interface{}]bool // object currently in the pool
}

// active is the execution in progress (nil = shims delegate to the real primitives).
var active *Exec

// Active reports the execution in progress, if the caller runs inside it.
func Active() *Exec { return active }

func (e *Exec) logf(format string, args ...interface{}) {
	e.Obs = append(e.Obs, fmt.Sprintf(format, args...))
}

// Observe records a harness observation (part of the replay-determinism check).
func Observe(format string, args ...interface{}) {
	if e := active; e != nil {
		e.logf(format, args...)
	}
}

func (e *Exec) enabled(self *task, selfEnabled bool) []*task {
	var rv []*task
	if selfEnabled && self != nil && !self.done {
		rv = append(rv, self)
	}
	for _, t := range e.tasks {
		if t == self || t.done {
			continue
		}
		if t.blocked != nil && !t.blocked() {
			continue
		}
		rv = append(rv, t)
	}
	return rv
}

func (e *Exec) choose(kind, n int, runningHere bool, desc string) int {
	i := len(e.points)
	c := 0
	if i < len(e.prefix) {
		c = e.prefix[i]
		if c >= n {
			e.diverged = fmt.Sprintf("replay divergence at point %d (%s): choice %d but only %d alternatives", i, desc, c, n)
			c = 0
		}
	}
	e.points = append(e.points, point{kind: kind, n: n, chosen: c, runningHere: runningHere, desc: desc})
	return c
}

// abortAll wakes every sleeping task so that it unwinds.
func (e *Exec) abortAll() {
	e.aborted = true
	for _, t := range e.tasks {
		if !t.done && t != e.cur {
			select {
			case t.wake <- struct{}{}:
			default:
			}
		}
	}
}

// schedule picks the next task to run. self is the calling task; selfEnabled says
// whether it may continue.
func (e *Exec) schedule(self *task, selfEnabled bool, desc string) {
	if e.aborted {
		panic(abortSignal{})
	}
	e.steps++
	if e.steps > e.maxSteps {
		e.failure = fmt.Sprintf("execution exceeded %d scheduling steps (livelock?)", e.maxSteps)
		e.finish()
		panic(abortSignal{})
	}
	en := e.enabled(self, selfEnabled)
	if len(en) == 0 {
		alldone := true
		for _, t := range e.tasks {
			if !t.done {
				alldone = false
			}
		}
		if !alldone {
			e.deadlock = true
			var w []string
			for _, t := range e.tasks {
				if !t.done {
					w = append(w, fmt.Sprintf("%s waits for %s", t.name, t.what))
				}
			}
			e.failure = "deadlock: " + strings.Join(w, "; ")
		}
		e.finish()
		if self != nil && !self.done {
			panic(abortSignal{})
		}
		return
	}
	next := en[0]
	if len(en) > 1 {
		next = en[e.choose(KindSched, len(en), selfEnabled && en[0] == self, desc)]
	}
	if next == self {
		return
	}
	e.cur = next
	next.wake <- struct{}{}
	if self == nil || self.done {
		return
	}
	<-self.wake
	if e.aborted {
		panic(abortSignal{})
	}
}

func (e *Exec) finish() {
	if !e.aborted {
		e.abortAll()
	}
	select {
	case <-e.finished:
	default:
		close(e.finished)
	}
}

// Point is a scheduling point of the running task.
func Point(desc string) {
	e := active
	if e == nil || e.aborted {
		return
	}
	e.schedule(e.cur, true, desc)
}

// Yield is a scheduling point placed by the harness itself (e.g. inside a visitor callback).
func Yield(desc string) { Point("yield:" + desc) }

// Block blocks the running task until can() holds. what describes the resource.
func Block(can func() bool, what string) {
	e := active
	if e == nil {
		panic("sched.Block outside an execution")
	}
	if e.aborted {
		panic(abortSignal{})
	}
	self := e.cur
	for !can() {
		self.blocked, self.what = can, what
		e.schedule(self, false, "block:"+what)
		self.blocked = nil
	}
}

// Choose is an environment choice point with n alternatives (0 = default answer).
func Choose(n int, desc string) int {
	e := active
	if e == nil || n <= 1 || e.aborted || e.envOff > 0 {
		return 0
	}
	return e.choose(KindEnv, n, false, desc)
}

// CurrentTask returns the id of the running task.
func CurrentTask() int {
	if e := active; e != nil && e.cur != nil {
		return e.cur.id
	}
	return -1
}

// Fault records an ownership / protocol fault detected by a shim.
func Fault(msg string) {
	if e := active; e != nil {
		e.Faults = append(e.Faults, msg)
	}
}

func (e *Exec) newTask(name string, fn func()) *task {
	t := &task{id: len(e.tasks), name: name, wake: make(chan struct{}, 1)}
	e.tasks = append(e.tasks, t)
	e.wg.Add(1)
	go func() {
		defer e.wg.Done()
		<-t.wake
		defer func() {
			r := recover()
			t.done = true
			if r != nil {
				if _, isAbort := r.(abortSignal); !isAbort && e.failure == "" {
					e.failure = fmt.Sprintf("panic in task %s: %v\n%s", t.name, r, trim(string(debug.Stack())))
					e.finish()
					return
				}
			}
			if e.aborted {
				return
			}
			e.schedule(t, false, "exit:"+t.name)
		}()
		if e.aborted {
			return
		}
		fn()
	}()
	return t
}

func trim(s string) string {
	lines := strings.Split(s, "\n")
	var out []string
	for _, l := range lines {
		if strings.Contains(l, "runtime/") || strings.Contains(l, "mc/sched") {
			continue
		}
		out = append(out, l)
		if len(out) > 16 {
			break
		}
	}
	return strings.Join(out, "\n")
}

// Go spawns a task from inside an execution (or a plain goroutine outside).
func Go(src string, fn func()) {
	e := active
	if e == nil {
		go fn()
		return
	}
	if e.SpawnFilter != nil && !e.SpawnFilter(src) {
		return
	}
	if e.inline {
		fn()
		return
	}
	e.newTask(fmt.Sprintf("go#%d(%s)", len(e.tasks), src), fn)
	Point("spawn:" + src)
}

// Spawn starts a named task from the harness body.
func Spawn(name string, fn func()) {
	e := active
	if e == nil {
		panic("sched.Spawn outside an execution")
	}
	e.newTask(name, fn)
}

// Result of one execution.
type Result struct {
	Choices     []int
	Points      int
	Preemptions int
	EnvDevs     int
	Deadlock    bool
	Failure     string
	Faults      []string
	Obs         []string
	kinds       []point
}

// Options of an exploration.
type Options struct {
	PreemptionBound int // -1 = unbounded
	EnvBound        int // max environment deviations per execution, -1 = unbounded
	MaxExecutions   int
	MaxSteps        int
	SpawnFilter     func(src string) bool
	// InlineSpawns runs goroutines spawned by the code under test to completion at
	// the spawn point (sequential histories: "the asynchronous step has happened
	// before the next event"); the harness' own tasks are not affected.
	InlineSpawns bool
}

// RunOnce executes body under the schedule given by prefix (then default choices).
func RunOnce(body func(), prefix []int, opt Options) Result {
	if active != nil {
		panic("nested exploration")
	}
	e := &Exec{prefix: prefix, finished: make(chan struct{}), Mutexes: map[interface{}]*MutexState{}, Pools: map[interface{}]*PoolState{},
		SpawnFilter: opt.SpawnFilter, maxSteps: opt.MaxSteps, inline: opt.InlineSpawns}
	if e.maxSteps == 0 {
		e.maxSteps = 200000
	}
	active = e
	main := e.newTask("main", body)
	e.cur = main
	main.wake <- struct{}{}
	<-e.finished
	e.wg.Wait() // every task has unwound; only now may the shims fall back to the real primitives
	active = nil
	r := Result{Points: len(e.points), Deadlock: e.deadlock, Failure: e.failure, Faults: e.Faults, Obs: e.Obs, kinds: e.points}
	if e.diverged != "" {
		r.Failure = "HARNESS: " + e.diverged
	}
	for _, p := range e.points {
		r.Choices = append(r.Choices, p.chosen)
		if p.chosen != 0 {
			if p.kind == KindEnv {
				r.EnvDevs++
			} else if p.runningHere {
				r.Preemptions++
			}
		}
	}
	return r
}

// Stats of an exploration.
type Stats struct {
	Executions   int
	ByPreempt    map[int]int
	MaxPoints    int
	Capped       bool
	Deadlocks    int
	DistinctObs  map[string]int
	ReplayChecks int
}

// Explore enumerates every schedule of body within the bounds, calling check on
// each execution. It returns when the space is exhausted or MaxExecutions is hit.
func Explore(body func(), opt Options, check func(r Result) bool) Stats {
	return ExploreShard(body, opt, 0, 1, check)
}

// children returns the choice prefixes of the subtrees below an execution that
// deviate from it at a position >= from, within the bounds.
func children(r Result, from int, opt Options) [][]int {
	var out [][]int
	pre, env := 0, 0
	for i, p := range r.kinds {
		if i >= from {
			for alt := 1; alt < p.n; alt++ {
				np, ne := pre, env
				if p.kind == KindEnv {
					ne++
				} else if p.runningHere {
					np++
				}
				if opt.PreemptionBound >= 0 && np > opt.PreemptionBound {
					continue
				}
				if opt.EnvBound >= 0 && ne > opt.EnvBound {
					continue
				}
				out = append(out, append(append([]int{}, r.Choices[:i]...), alt))
			}
		}
		if p.chosen != 0 {
			if p.kind == KindEnv {
				env++
			} else if p.runningHere {
				pre++
			}
		}
	}
	return out
}

// ExploreShard explores the shard-th of nshards parts of the schedule tree: the
// tree is expanded breadth-first until it has at least 4*nshards subtrees (those
// inner executions are checked by shard 0 only), which are then dealt round-robin;
// the union over all shards is exactly the space Explore covers.
func ExploreShard(body func(), opt Options, shard, nshards int, check func(r Result) bool) Stats {
	st := Stats{ByPreempt: map[int]int{}, DistinctObs: map[string]int{}}
	stop := false
	note := func(r Result) bool {
		st.Executions++
		st.ByPreempt[r.Preemptions]++
		if r.Points > st.MaxPoints {
			st.MaxPoints = r.Points
		}
		if r.Deadlock {
			st.Deadlocks++
		}
		st.DistinctObs[strings.Join(r.Obs, "|")]++
		return check(r)
	}
	work := [][]int{nil}
	if nshards > 1 {
		for level := 0; level < 4 && len(work) < 4*nshards && len(work) > 0; level++ {
			var next [][]int
			for _, p := range work {
				r := RunOnce(body, p, opt)
				if shard == 0 {
					if !note(r) {
						return st
					}
				}
				next = append(next, children(r, len(p), opt)...)
			}
			work = next
		}
	}
	var rec func(prefix []int)
	rec = func(prefix []int) {
		if stop {
			return
		}
		if opt.MaxExecutions > 0 && st.Executions >= opt.MaxExecutions {
			st.Capped = true
			stop = true
			return
		}
		r := RunOnce(body, prefix, opt)
		if !note(r) {
			stop = true
			return
		}
		for _, next := range children(r, len(prefix), opt) {
			rec(next)
			if stop {
				return
			}
		}
	}
	for j, p := range work {
		if j%nshards == shard {
			rec(p)
		}
	}
	return st
}

// Replay runs the schedule twice and reports whether the observations agree.
func Replay(body func(), choices []int, opt Options) (Result, bool) {
	r1 := RunOnce(body, choices, opt)
	r2 := RunOnce(body, choices, opt)
	same := normObs(strings.Join(r1.Obs, "|")) == normObs(strings.Join(r2.Obs, "|")) && normObs(r1.Failure) == normObs(r2.Failure) &&
		strings.Join(r1.Faults, "|") == strings.Join(r2.Faults, "|") && fmt.Sprint(r1.Choices) == fmt.Sprint(r2.Choices)
	return r1, same
}

var volatileText = regexp.MustCompile(`[^\s:"']*\.zap|0x[0-9a-f]+`)

// normObs masks the parts of an observation that legitimately differ between two
// executions of the same schedule: names of scratch files (every execution uses a
// fresh one; they show up inside error texts of the operating system) and addresses.
func normObs(s string) string { return volatileText.ReplaceAllString(s, "<volatile>") }

// NormObs is normObs for callers outside the package.
func NormObs(s string) string { return normObs(s) }

// DefaultEnv runs fn with environment choice points answering their default
// (used by harness code that only observes, so that the deviation budget is
// spent on the operations under test).
func DefaultEnv(fn func()) {
	e := active
	if e == nil {
		fn()
		return
	}
	e.envOff++
	defer func() { e.envOff-- }()
	fn()
}

// Describe lists the recorded choice points of the execution (for diagnostics).
func (r Result) Describe() []string {
	var out []string
	for _, p := range r.kinds {
		k := "sched"
		if p.kind == KindEnv {
			k = "env"
		}
		out = append(out, fmt.Sprintf("%s n=%d chosen=%d %s", k, p.n, p.chosen, p.desc))
	}
	return out
}
