package sched_test

import (
	"fmt"
	"testing"

	"verif/mc/sched"
	"verif/shim/vsync"
)

// lost update: two tasks do read; yield; write without a lock.
func TestLostUpdateFound(t *testing.T) {
	var outcomes = map[int]int{}
	body := func() {
		x := 0
		done := 0
		for i := 0; i < 2; i++ {
			sched.Spawn(fmt.Sprint("t", i), func() {
				v := x
				sched.Yield("between read and write")
				x = v + 1
				done++
			})
		}
		sched.Block(func() bool { return done == 2 }, "join")
		sched.Observe("x=%d", x)
		outcomes[x]++
	}
	st := sched.Explore(body, sched.Options{PreemptionBound: -1, EnvBound: -1}, func(r sched.Result) bool {
		if r.Failure != "" {
			t.Fatalf("failure: %s", r.Failure)
		}
		return true
	})
	if outcomes[1] == 0 || outcomes[2] == 0 {
		t.Fatalf("expected both outcomes, got %v after %d executions", outcomes, st.Executions)
	}
	t.Logf("executions=%d outcomes=%v byPreempt=%v", st.Executions, outcomes, st.ByPreempt)
}

func TestMutexProtects(t *testing.T) {
	var mu vsync.Mutex
	body := func() {
		x := 0
		done := 0
		for i := 0; i < 2; i++ {
			sched.Spawn(fmt.Sprint("t", i), func() {
				mu.Lock()
				v := x
				sched.Yield("inside")
				x = v + 1
				mu.Unlock()
				done++
			})
		}
		sched.Block(func() bool { return done == 2 }, "join")
		if x != 2 {
			panic(fmt.Sprintf("lost update under mutex: x=%d", x))
		}
	}
	st := sched.Explore(body, sched.Options{PreemptionBound: -1, EnvBound: -1}, func(r sched.Result) bool {
		if r.Failure != "" {
			t.Fatalf("failure: %s", r.Failure)
		}
		return true
	})
	if st.Executions < 2 {
		t.Fatalf("only %d executions", st.Executions)
	}
	t.Logf("executions=%d", st.Executions)
}

func TestDeadlockFound(t *testing.T) {
	var a, b vsync.Mutex
	body := func() {
		sched.Spawn("ab", func() { a.Lock(); b.Lock(); b.Unlock(); a.Unlock() })
		sched.Spawn("ba", func() { b.Lock(); a.Lock(); a.Unlock(); b.Unlock() })
	}
	dead := 0
	st := sched.Explore(body, sched.Options{PreemptionBound: -1, EnvBound: -1}, func(r sched.Result) bool {
		if r.Deadlock {
			dead++
		}
		return true
	})
	if dead == 0 {
		t.Fatalf("deadlock not found in %d executions", st.Executions)
	}
	t.Logf("executions=%d deadlocks=%d", st.Executions, dead)
}

func TestPoolDoublePutAndReplay(t *testing.T) {
	p := &vsync.Pool{New: func() interface{} { return new(int) }}
	body := func() {
		x := p.Get()
		p.Put(x)
		p.Put(x)
		a := p.Get()
		b := p.Get()
		sched.Observe("same=%v", a == b)
	}
	faults := 0
	sched.Explore(body, sched.Options{PreemptionBound: 0, EnvBound: 0}, func(r sched.Result) bool {
		faults += len(r.Faults)
		return true
	})
	if faults == 0 {
		t.Fatal("double put not detected")
	}
	r, same := sched.Replay(body, nil, sched.Options{})
	if !same || len(r.Obs) != 1 || r.Obs[0] != "same=true" {
		t.Fatalf("replay: same=%v obs=%v", same, r.Obs)
	}
}

func TestShardsPartition(t *testing.T) {
	var mu vsync.Mutex
	body := func() {
		done := 0
		for i := 0; i < 3; i++ {
			sched.Spawn(fmt.Sprint("t", i), func() {
				mu.Lock()
				sched.Yield("in")
				mu.Unlock()
				sched.Yield("out")
				done++
			})
		}
		sched.Block(func() bool { return done == 3 }, "join")
	}
	opt := sched.Options{PreemptionBound: 2, EnvBound: -1}
	whole := sched.Explore(body, opt, func(sched.Result) bool { return true })
	sum := 0
	for s := 0; s < 5; s++ {
		st := sched.ExploreShard(body, opt, s, 5, func(sched.Result) bool { return true })
		sum += st.Executions
	}
	if sum != whole.Executions {
		t.Fatalf("shards cover %d executions, unsharded exploration %d", sum, whole.Executions)
	}
	t.Logf("executions=%d", whole.Executions)
}
