// Package mx evaluates merge expressions (harness/enum.Expr) on the real code
// and computes their reference content.
package mx

import (
	"fmt"

	"github.com/RoaringBitmap/roaring/v2"
	segment "github.com/blevesearch/scorch_segment_api/v2"

	"verif/enum"
	"verif/ref"
	"verif/spec"
	"verif/zx"
)

// refOf computes the reference content of an expression (no zapx involved).
func RefOf(menu []spec.Batch, e enum.Expr) *ref.Content {
	if e.Leaf != 0 {
		return ref.FromBatch(menu[e.Leaf-1])
	}
	ins := make([]*ref.Content, len(e.In))
	drops := make([][]bool, len(e.In))
	for i, c := range e.In {
		ins[i] = RefOf(menu, c)
		if e.DropOK[i] {
			drops[i] = make([]bool, ins[i].Count)
			for _, d := range e.Drops[i] {
				drops[i][d] = true
			}
		}
	}
	c, _ := ref.FromMerge(ins, drops)
	return c
}

type Evald struct {
	Seg     segment.Segment
	Exp     *ref.Content
	cleanup []func()
	// root merge results
	Maps   [][]uint64
	Size   uint64
	Path   string
	ExpMap [][]uint64
	Merged bool
	// inputs of the root merge (still open until Close) and their references
	InSegs []segment.Segment
	InExps []*ref.Content
}

func (e *Evald) Close() {
	for i := len(e.cleanup) - 1; i >= 0; i-- {
		e.cleanup[i]()
	}
}

// evalExpr replays the expression on fresh objects. A failure of an inner
// operation is reported as error with the operation named.
func EvalExpr(menu []spec.Batch, e enum.Expr, mode uint32) (*Evald, error) {
	return evalExpr(menu, e, mode, nil)
}

// Leaves caches leaf segments so that several expressions run on the SAME objects.
type Leaves struct {
	m       map[string]*Evald
	cleanup []func()
}

func NewLeaves() *Leaves { return &Leaves{m: map[string]*Evald{}} }

func (l *Leaves) Close() {
	for i := len(l.cleanup) - 1; i >= 0; i-- {
		l.cleanup[i]()
	}
}

// EvalExprShared is EvalExpr with leaf segments taken from (and added to) leaves.
func EvalExprShared(menu []spec.Batch, e enum.Expr, mode uint32, leaves *Leaves) (*Evald, error) {
	return evalExpr(menu, e, mode, leaves)
}

func evalExpr(menu []spec.Batch, e enum.Expr, mode uint32, leaves *Leaves) (*Evald, error) {
	rv := &Evald{}
	if e.Leaf != 0 && leaves != nil {
		key := fmt.Sprintf("%d/%v", e.Leaf, e.Opened)
		if c, ok := leaves.m[key]; ok {
			return &Evald{Seg: c.Seg, Exp: c.Exp}, nil
		}
		c, err := evalExpr(menu, e, mode, nil)
		leaves.cleanup = append(leaves.cleanup, c.Close)
		if err != nil {
			return &Evald{}, err
		}
		leaves.m[key] = c
		return &Evald{Seg: c.Seg, Exp: c.Exp}, nil
	}
	if e.Leaf != 0 {
		b := menu[e.Leaf-1]
		rv.Exp = ref.FromBatch(b)
		seg, _, err := zx.Build(b, mode)
		if err != nil {
			return rv, fmt.Errorf("build of M%d: %v", e.Leaf-1, err)
		}
		rv.cleanup = append(rv.cleanup, func() { seg.Close() })
		rv.Seg = seg
		if e.Opened {
			o, path, err := zx.PersistOpen(seg)
			if path != "" {
				rv.cleanup = append(rv.cleanup, func() { zx.Remove(path) })
			}
			if err != nil {
				return rv, fmt.Errorf("persist+open of M%d: %v", e.Leaf-1, err)
			}
			rv.cleanup = append(rv.cleanup, func() { o.Close() })
			rv.Seg = o
		}
		return rv, nil
	}
	ins := make([]*ref.Content, len(e.In))
	segs := make([]segment.Segment, len(e.In))
	drops := make([][]bool, len(e.In))
	bms := make([]*roaring.Bitmap, len(e.In))
	for i, c := range e.In {
		sub, err := evalExpr(menu, c, mode, leaves)
		rv.cleanup = append(rv.cleanup, sub.Close)
		if err != nil {
			return rv, fmt.Errorf("input %d: %v", i, err)
		}
		ins[i], segs[i] = sub.Exp, sub.Seg
		if e.DropOK[i] {
			drops[i] = make([]bool, sub.Exp.Count)
			bms[i] = roaring.New()
			for _, d := range e.Drops[i] {
				drops[i][d] = true
				bms[i].Add(uint32(d))
			}
		}
	}
	rv.Exp, rv.ExpMap = ref.FromMerge(ins, drops)
	rv.InSegs, rv.InExps = segs, ins
	path, maps, size, err := safeMerge(segs, bms, mode)
	rv.cleanup = append(rv.cleanup, func() { zx.Remove(path) })
	if err != nil {
		return rv, fmt.Errorf("Merge: %v", err)
	}
	rv.Maps, rv.Size, rv.Path, rv.Merged = maps, size, path, true
	o, err := zx.Plugin.Open(path)
	if err != nil {
		return rv, fmt.Errorf("Open of the merged file: %v", err)
	}
	rv.cleanup = append(rv.cleanup, func() { o.Close() })
	rv.Seg = o
	return rv, nil
}

func safeMerge(segs []segment.Segment, bms []*roaring.Bitmap, mode uint32) (path string, maps [][]uint64, size uint64, err error) {
	defer func() {
		if r := recover(); r != nil {
			err = fmt.Errorf("panic in Merge: %v", r)
		}
	}()
	return zx.Merge(segs, bms, mode)
}
