// Package dec16 is an independent decoder of the zap v16 segment file layout,
// written from zap.md and the encoding comments of the format only. It does not
// import zapx; for the third-party leaf formats it uses vellum (dictionaries),
// roaring (posting bitmaps) and snappy (stored fields, doc values).
package dec16

import (
	"encoding/binary"
	"errors"
	"fmt"
	"hash/crc32"
	"math"
	"sort"

	"github.com/RoaringBitmap/roaring/v2"
	"github.com/RoaringBitmap/roaring/v2/roaring64"
	"github.com/blevesearch/vellum"
	"github.com/golang/snappy"

	"verif/ref"
)

const (
	footerSize    = 8*5 + 4*3
	secInverted   = 0
	secVector     = 1
	secSynonym    = 2
	noDocValues   = math.MaxUint64
	mask31        = uint64(0x7fffffff)
	oneHitMarker  = uint64(0x8000000000000000)
	encodingMask  = uint64(0xc000000000000000)
	termSeparator = 0xff
)

type file struct {
	b         []byte // whole file
	mem       []byte // without footer
	numDocs   uint64
	storedIdx uint64
	fieldsIdx uint64
	sections  uint64
	chunkMode uint32
}

type reader struct {
	b   []byte
	pos uint64
	err error
}

func (r *reader) uvarint() uint64 {
	if r.err != nil {
		return 0
	}
	if r.pos > uint64(len(r.b)) {
		r.err = fmt.Errorf("offset %d beyond %d bytes", r.pos, len(r.b))
		return 0
	}
	v, n := binary.Uvarint(r.b[r.pos:])
	if n <= 0 {
		r.err = fmt.Errorf("bad uvarint at offset %d", r.pos)
		return 0
	}
	r.pos += uint64(n)
	return v
}

func (r *reader) varint() int64 {
	if r.err != nil {
		return 0
	}
	v, n := binary.Varint(r.b[r.pos:])
	if n <= 0 {
		r.err = fmt.Errorf("bad varint at offset %d", r.pos)
		return 0
	}
	r.pos += uint64(n)
	return v
}

func (r *reader) bytes(n uint64) []byte {
	if r.err != nil {
		return nil
	}
	if r.pos+n > uint64(len(r.b)) || r.pos+n < r.pos {
		r.err = fmt.Errorf("%d bytes at offset %d exceed %d bytes", n, r.pos, len(r.b))
		return nil
	}
	v := r.b[r.pos : r.pos+n]
	r.pos += n
	return v
}

func (r *reader) u64() uint64 {
	b := r.bytes(8)
	if b == nil {
		return 0
	}
	return binary.BigEndian.Uint64(b)
}

func (r *reader) u16() uint16 {
	b := r.bytes(2)
	if b == nil {
		return 0
	}
	return binary.BigEndian.Uint16(b)
}

// Result is what the decoder found.
type Result struct {
	Content   *ref.Content
	ChunkMode uint32
	// VecDocs: vector field -> doc number -> number of vectors listed in the id->doc table
	VecDocs map[string]map[uint64]int
	OneHit  map[string]bool // "field/term" entries using the single-hit encoding
	// Deviations from the documented layout that the decoder recognised and stepped over
	// (so that the rest of the file is still decoded and compared)
	Deviations []string
}

// chunkSize is the documented chunk-size rule.
func chunkSize(mode uint32, cardinality, maxDocs uint64) (uint64, error) {
	switch {
	case mode == 0:
		return 0, fmt.Errorf("chunk mode 0")
	case mode <= 1024:
		return uint64(mode), nil
	case mode == 1025:
		if cardinality <= 1024 {
			if maxDocs == 0 {
				return 0, fmt.Errorf("chunk size 0")
			}
			return maxDocs, nil
		}
		return 1024, nil
	case mode == 1026:
		n := cardinality/1024 + 1
		if maxDocs/n == 0 {
			return 0, fmt.Errorf("chunk size 0")
		}
		return maxDocs / n, nil
	}
	return 0, fmt.Errorf("unknown chunk mode %d", mode)
}

// chunked is a chunked uvarint stream: numChunks, end offsets, data.
type chunked struct {
	present bool
	ends    []uint64
	data    []byte
}

func (f *file) chunkedAt(off uint64) (chunked, error) {
	if off == 0 {
		return chunked{}, nil
	}
	r := &reader{b: f.mem, pos: off}
	n := r.uvarint()
	if n > uint64(len(f.mem)) {
		return chunked{}, fmt.Errorf("chunk count %d at %d", n, off)
	}
	c := chunked{present: true}
	for i := uint64(0); i < n; i++ {
		c.ends = append(c.ends, r.uvarint())
	}
	if r.err != nil {
		return c, r.err
	}
	c.data = f.mem[r.pos:]
	return c, nil
}

func (c chunked) chunk(i uint64) ([]byte, error) {
	if !c.present {
		return nil, nil
	}
	if i >= uint64(len(c.ends)) {
		return nil, fmt.Errorf("chunk %d of %d", i, len(c.ends))
	}
	var s uint64
	if i > 0 {
		s = c.ends[i-1]
	}
	e := c.ends[i]
	if s > e || e > uint64(len(c.data)) {
		return nil, fmt.Errorf("chunk %d bounds %d..%d", i, s, e)
	}
	return c.data[s:e], nil
}

// Decode decodes a complete segment file.
func Decode(b []byte) (*Result, error) {
	if len(b) < footerSize {
		return nil, fmt.Errorf("file shorter than a footer")
	}
	ft := b[len(b)-footerSize:]
	f := &file{b: b, mem: b[:len(b)-footerSize]}
	f.numDocs = binary.BigEndian.Uint64(ft[0:])
	f.storedIdx = binary.BigEndian.Uint64(ft[8:])
	f.fieldsIdx = binary.BigEndian.Uint64(ft[16:])
	f.sections = binary.BigEndian.Uint64(ft[24:])
	f.chunkMode = binary.BigEndian.Uint32(ft[40:])
	version := binary.BigEndian.Uint32(ft[44:])
	crc := binary.BigEndian.Uint32(ft[48:])
	if version != 16 {
		return nil, fmt.Errorf("version %d", version)
	}
	if c := crc32.ChecksumIEEE(b[:len(b)-4]); c != crc {
		return nil, fmt.Errorf("CRC mismatch: footer %08x, computed %08x", crc, c)
	}
	res := &Result{Content: ref.NewContent(), ChunkMode: f.chunkMode, VecDocs: map[string]map[uint64]int{}, OneHit: map[string]bool{}}
	c := res.Content
	c.Count = int(f.numDocs)

	// ---- sections index and per-field section tables
	type fieldRec struct {
		name string
		sec  map[uint16]uint64
	}
	r := &reader{b: f.mem, pos: f.sections}
	nf := r.uvarint()
	if r.err != nil || nf > 1<<20 {
		return nil, fmt.Errorf("sections index: %v (nf=%d)", r.err, nf)
	}
	var fields []fieldRec // by field id; absent records keep an empty name
	fieldName := map[uint64]string{}
	for i := uint64(0); i < nf; i++ {
		addr := r.u64()
		if r.err != nil {
			return nil, fmt.Errorf("sections index: %v", r.err)
		}
		rec := fieldRec{sec: map[uint16]uint64{}}
		if addr != 0 { // offset 0 = "no such field"
			fr := &reader{b: f.mem, pos: addr}
			nl := fr.uvarint()
			rec.name = string(fr.bytes(nl))
			ns := fr.uvarint()
			for k := uint64(0); k < ns; k++ {
				t := fr.u16()
				a := fr.u64()
				rec.sec[t] = a
			}
			if fr.err != nil {
				return nil, fmt.Errorf("field record %d: %v", i, fr.err)
			}
			c.Fields = append(c.Fields, rec.name)
			fieldName[i] = rec.name
		}
		fields = append(fields, rec)
	}
	sort.Strings(c.Fields)

	// ---- stored fields
	for d := uint64(0); d < f.numDocs; d++ {
		sr := &reader{b: f.mem, pos: f.storedIdx + 8*d}
		off := sr.u64()
		dr := &reader{b: f.mem, pos: off}
		metaLen := dr.uvarint()
		dataLen := dr.uvarint()
		meta := dr.bytes(metaLen)
		data := dr.bytes(dataLen)
		if sr.err != nil || dr.err != nil {
			return nil, fmt.Errorf("stored doc %d: %v %v", d, sr.err, dr.err)
		}
		mr := &reader{b: meta}
		idLen := mr.uvarint()
		if idLen > uint64(len(data)) {
			return nil, fmt.Errorf("stored doc %d: id length %d > data %d", d, idLen, len(data))
		}
		sv := []ref.StoredVal{{Field: "_id", Typ: 't', Val: append([]byte{}, data[:idLen]...)}}
		unc, err := snappy.Decode(nil, data[idLen:])
		if err != nil {
			return nil, fmt.Errorf("stored doc %d: snappy: %v", d, err)
		}
		for mr.pos < uint64(len(meta)) {
			fid := mr.uvarint()
			typ := mr.uvarint()
			o := mr.uvarint()
			l := mr.uvarint()
			nap := mr.uvarint()
			var ap []uint64
			for k := uint64(0); k < nap && mr.err == nil; k++ {
				ap = append(ap, mr.uvarint())
			}
			if mr.err != nil {
				return nil, fmt.Errorf("stored doc %d meta: %v", d, mr.err)
			}
			if o+l > uint64(len(unc)) {
				return nil, fmt.Errorf("stored doc %d: value %d+%d beyond %d", d, o, l, len(unc))
			}
			name, ok := fieldName[fid]
			if !ok {
				return nil, fmt.Errorf("stored doc %d: unknown field id %d", d, fid)
			}
			sv = append(sv, ref.StoredVal{Field: name, Typ: byte(typ), Val: append([]byte{}, unc[o:o+l]...), AP: ap})
		}
		c.Stored = append(c.Stored, sv)
	}

	// ---- per field sections
	for fid, rec := range fields {
		if rec.name == "" && len(rec.sec) == 0 {
			continue
		}
		if a := rec.sec[secInverted]; a != 0 {
			if err := f.decodeInverted(res, rec.name, a, fieldName); err != nil {
				return nil, fmt.Errorf("field %q (id %d) inverted section: %v", rec.name, fid, err)
			}
		}
		if a := rec.sec[secSynonym]; a != 0 {
			if err := f.decodeThesaurus(res, rec.name, a); err != nil {
				return nil, fmt.Errorf("thesaurus %q: %v", rec.name, err)
			}
		}
		if a := rec.sec[secVector]; a != 0 {
			if err := f.decodeVectors(res, rec.name, a); err != nil {
				return nil, fmt.Errorf("vector field %q: %v", rec.name, err)
			}
		}
	}
	sort.Strings(c.DVFields)
	return res, nil
}

func (f *file) decodeInverted(res *Result, name string, addr uint64, fieldName map[uint64]string) error {
	c := res.Content
	r := &reader{b: f.mem, pos: addr}
	dvStart := r.uvarint()
	dvEnd := r.uvarint()
	dictLoc := r.uvarint()
	if r.err != nil {
		return r.err
	}
	if dictLoc == 0 {
		// the layout has no "no dictionary" value here: every field record of the inverted
		// section points at a 'length | FST' record (an empty FST for a field without terms),
		// and offset 0 is the first stored-document block
		return fmt.Errorf("dictionary offset 0 in the field's record of the inverted section: not the position of a 'length | FST' record")
	}
	{
		dr := &reader{b: f.mem, pos: dictLoc}
		vl := dr.uvarint()
		vb := dr.bytes(vl)
		if dr.err != nil {
			return dr.err
		}
		fst, err := vellum.Load(vb)
		if err != nil {
			return fmt.Errorf("vellum: %v", err)
		}
		it, err := fst.Iterator(nil, nil)
		for err == nil {
			term, val := it.Current()
			hits, oneHit, derr := f.decodePostings(val, fieldName)
			if derr != nil {
				return fmt.Errorf("term %q: %v", term, derr)
			}
			if c.Postings[name] == nil {
				c.Postings[name] = map[string][]ref.Hit{}
			}
			c.Postings[name][string(term)] = hits
			if oneHit {
				res.OneHit[fmt.Sprintf("%q/%q", name, term)] = true
			}
			err = it.Next()
		}
		if err != vellum.ErrIteratorDone {
			return fmt.Errorf("vellum iteration: %v", err)
		}
	}
	if dvStart != noDocValues && f.numDocs > 0 {
		if err := f.decodeDocValues(res, name, dvStart, dvEnd); err != nil {
			return fmt.Errorf("doc values: %v", err)
		}
	}
	return nil
}

func (f *file) decodePostings(val uint64, fieldName map[uint64]string) ([]ref.Hit, bool, error) {
	if val&encodingMask == oneHitMarker {
		doc := val & mask31
		normBits := (val >> 31) & mask31
		return []ref.Hit{{Doc: doc, Freq: 1, Norm: normOf(normBits)}}, true, nil
	}
	r := &reader{b: f.mem, pos: val}
	freqOff := r.uvarint()
	locOff := r.uvarint()
	bl := r.uvarint()
	bb := r.bytes(bl)
	if r.err != nil {
		return nil, false, r.err
	}
	bm := roaring.New()
	if _, err := bm.FromBuffer(append([]byte{}, bb...)); err != nil {
		return nil, false, fmt.Errorf("roaring: %v", err)
	}
	cs, err := chunkSize(f.chunkMode, bm.GetCardinality(), f.numDocs)
	if err != nil {
		return nil, false, err
	}
	fn, err := f.chunkedAt(freqOff)
	if err != nil {
		return nil, false, err
	}
	lc, err := f.chunkedAt(locOff)
	if err != nil {
		return nil, false, err
	}
	var hits []ref.Hit
	curChunk := uint64(math.MaxUint64)
	var fr, lr *reader
	it := bm.Iterator()
	for it.HasNext() {
		doc := uint64(it.Next())
		ch := doc / cs
		if ch != curChunk {
			fb, err := fn.chunk(ch)
			if err != nil {
				return nil, false, fmt.Errorf("freq/norm %v", err)
			}
			fr = &reader{b: fb}
			lr = nil
			if lc.present {
				lb, err := lc.chunk(ch)
				if err != nil {
					return nil, false, fmt.Errorf("locations %v", err)
				}
				lr = &reader{b: lb}
			}
			curChunk = ch
		}
		fh := fr.uvarint()
		h := ref.Hit{Doc: doc, Freq: fh >> 1}
		hasLocs := fh&1 != 0
		if h.Freq > 0 {
			h.Norm = normOf(fr.uvarint())
		}
		if fr.err != nil {
			return nil, false, fmt.Errorf("doc %d freq/norm: %v", doc, fr.err)
		}
		if hasLocs {
			if lr == nil {
				return nil, false, fmt.Errorf("doc %d has locations but there is no location stream", doc)
			}
			nb := lr.uvarint()
			end := lr.pos + nb
			for lr.pos < end && lr.err == nil {
				fid := lr.uvarint()
				l := ref.Loc{Pos: lr.uvarint(), Start: lr.uvarint(), End: lr.uvarint()}
				nap := lr.uvarint()
				for k := uint64(0); k < nap && lr.err == nil; k++ {
					l.AP = append(l.AP, lr.uvarint())
				}
				fname, ok := fieldName[fid]
				if !ok {
					return nil, false, fmt.Errorf("doc %d: location names unknown field id %d", doc, fid)
				}
				l.Field = fname
				h.Locs = append(h.Locs, l)
			}
			if lr.err != nil || lr.pos != end {
				return nil, false, fmt.Errorf("doc %d locations: %v (pos %d end %d)", doc, lr.err, lr.pos, end)
			}
		}
		hits = append(hits, h)
	}
	return hits, false, nil
}

func normOf(bits uint64) float64 {
	return float64(float32(1.0 / math.Sqrt(float64(uint32(bits)))))
}

// dvChunkDocs: documents per doc-value chunk (fixed, independent of the chunk mode).
const dvChunkDocs = 1024

func (f *file) decodeDocValues(res *Result, name string, start, end uint64) error {
	c := res.Content
	if end < start+16 || end > uint64(len(f.mem)) {
		return fmt.Errorf("region %d..%d", start, end)
	}
	numChunks := binary.BigEndian.Uint64(f.mem[end-8 : end])
	offLen := binary.BigEndian.Uint64(f.mem[end-16 : end-8])
	if offLen > end-16-start {
		return fmt.Errorf("chunk offsets length %d", offLen)
	}
	or := &reader{b: f.mem, pos: end - 16 - offLen}
	var ends []uint64
	for i := uint64(0); i < numChunks; i++ {
		ends = append(ends, or.uvarint())
	}
	if or.err != nil {
		return or.err
	}
	c.DVFields = append(c.DVFields, name)
	var prev uint64
	for i, e := range ends {
		if e < prev || start+e > end {
			return fmt.Errorf("chunk %d bounds", i)
		}
		if e == prev {
			continue
		}
		cr := &reader{b: f.mem[:start+e], pos: start + prev}
		prev = e
		n := cr.uvarint()
		type md struct{ doc, end uint64 }
		var mds []md
		for k := uint64(0); k < n && cr.err == nil; k++ {
			mds = append(mds, md{cr.uvarint(), cr.uvarint()})
		}
		if cr.err != nil {
			return cr.err
		}
		data, err := snappy.Decode(nil, cr.b[cr.pos:])
		if err != nil {
			return fmt.Errorf("chunk %d snappy: %v", i, err)
		}
		var p uint64
		for _, m := range mds {
			if m.end < p || m.end > uint64(len(data)) {
				return fmt.Errorf("chunk %d doc %d offsets", i, m.doc)
			}
			// doc values are chunked by 1024 documents whatever the footer's chunk mode says
			if m.doc/dvChunkDocs != uint64(i) {
				return fmt.Errorf("doc %d is stored in doc-value chunk %d, the layout puts it in chunk %d (doc / %d)", m.doc, i, m.doc/dvChunkDocs, dvChunkDocs)
			}
			seg := data[p:m.end]
			p = m.end
			var terms []string
			st := 0
			for k, ch := range seg {
				if ch == termSeparator {
					terms = append(terms, string(seg[st:k]))
					st = k + 1
				}
			}
			if len(terms) > 0 {
				sort.Strings(terms)
				if c.DV[name] == nil {
					c.DV[name] = map[uint64][]string{}
				}
				c.DV[name][m.doc] = append(c.DV[name][m.doc], terms...)
			}
		}
	}
	return nil
}

// ErrNoEntryCount: a thesaurus block without the documented entry count (see decodeThesaurus).
var ErrNoEntryCount = errors.New("thesaurus block without entries has no NST count (documented: VL | VD | NST | entries)")

func (f *file) decodeThesaurus(res *Result, name string, addr uint64) error {
	c := res.Content
	r := &reader{b: f.mem, pos: addr}
	r.uvarint() // doc value start (unused for thesauri)
	r.uvarint() // doc value end
	loc := r.uvarint()
	if r.err != nil {
		return r.err
	}
	tr := &reader{b: f.mem, pos: loc}
	vl := tr.uvarint()
	vb := tr.bytes(vl)
	if tr.err != nil {
		return tr.err
	}
	fst, err := vellum.Load(vb)
	if err != nil {
		return fmt.Errorf("vellum: %v", err)
	}
	terms := map[uint32]string{}
	{
		// zap.md: | VL | VD | NST | {TID | TL | Term} x NST |  - the count is part of the block
		nst := tr.uvarint()
		if fst.Len() == 0 && nst == math.MaxUint64 {
			// KNOWN FINDING: the writer leaves the count out when the term table is empty (a
			// thesaurus that lost all its definitions in a merge); what is read here is the
			// first varint of the record that follows (doc-value start = "not uninverted").
			// Recorded, and the block is taken as empty so that the rest is still decoded.
			res.Deviations = append(res.Deviations, fmt.Sprintf("thesaurus %q: %v", name, ErrNoEntryCount))
			nst = 0
		}
		for i := uint64(0); i < nst && tr.err == nil; i++ {
			tid := tr.uvarint()
			tl := tr.uvarint()
			terms[uint32(tid)] = string(tr.bytes(tl))
		}
		if tr.err != nil {
			return tr.err
		}
	}
	it, err := fst.Iterator(nil, nil)
	for err == nil {
		term, off := it.Current()
		pr := &reader{b: f.mem, pos: off}
		bl := pr.uvarint()
		bb := pr.bytes(bl)
		if pr.err != nil {
			return pr.err
		}
		bm := roaring64.New()
		if err := bm.UnmarshalBinary(append([]byte{}, bb...)); err != nil {
			return fmt.Errorf("roaring64: %v", err)
		}
		bi := bm.Iterator()
		for bi.HasNext() {
			code := bi.Next()
			syn, ok := terms[uint32(code>>32)]
			if !ok {
				return fmt.Errorf("term %q: synonym id %d not in the id->term table", term, code>>32)
			}
			if c.Thes[name] == nil {
				c.Thes[name] = map[string][]ref.SynPair{}
			}
			c.Thes[name][string(term)] = append(c.Thes[name][string(term)], ref.SynPair{Syn: syn, Doc: uint32(code)})
		}
		err = it.Next()
	}
	if err != vellum.ErrIteratorDone {
		return fmt.Errorf("vellum iteration: %v", err)
	}
	for t, ps := range c.Thes[name] {
		sort.Slice(ps, func(a, b int) bool {
			if ps[a].Syn != ps[b].Syn {
				return ps[a].Syn < ps[b].Syn
			}
			return ps[a].Doc < ps[b].Doc
		})
		c.Thes[name][t] = ps
	}
	return nil
}

func (f *file) decodeVectors(res *Result, name string, addr uint64) error {
	r := &reader{b: f.mem, pos: addr}
	r.uvarint()
	r.uvarint()
	r.uvarint() // index optimisation type
	n := r.uvarint()
	docs := map[uint64]int{}
	seen := map[int64]bool{}
	for i := uint64(0); i < n && r.err == nil; i++ {
		id := r.varint()
		d := r.uvarint()
		if seen[id] {
			return fmt.Errorf("vector id %d listed twice", id)
		}
		seen[id] = true
		docs[d]++
	}
	sz := r.uvarint()
	r.bytes(sz)
	if r.err != nil {
		return r.err
	}
	res.VecDocs[name] = docs
	return nil
}
