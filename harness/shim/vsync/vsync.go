// Package vsync is a drop-in replacement for the parts of package sync that
// zapx uses (Mutex, RWMutex, Pool) plus Go for `go` statements. Outside a
// controlled execution everything delegates to the real primitives; inside one
// the objects are modelled by the scheduler (verif/mc/sched) and every
// operation is a scheduling point.
package vsync

import (
	"cmp"
	"fmt"
	"sort"
	"sync"

	"verif/mc/sched"
)

type Locker = sync.Locker
type WaitGroup = sync.WaitGroup
type Once = sync.Once

// The remaining exported names of package sync are passed through, so that a changed
// zapx that starts using them still builds in the instrumented flavours. Map operations
// are atomic and never block, so they need no scheduling point; a Cond would really block
// under the cooperative scheduler (the hang watchdog reports that as inconclusive).
type Map = sync.Map
type Cond = sync.Cond

func NewCond(l Locker) *Cond { return sync.NewCond(l) }

func OnceFunc(f func()) func() { return sync.OnceFunc(f) }

func OnceValue[T any](f func() T) func() T { return sync.OnceValue(f) }

func OnceValues[T1, T2 any](f func() (T1, T2)) func() (T1, T2) { return sync.OnceValues(f) }

// Mutex replaces sync.Mutex.
type Mutex struct{ real sync.Mutex }

func mstate(e *sched.Exec, key interface{}) *sched.MutexState {
	s := e.Mutexes[key]
	if s == nil {
		s = &sched.MutexState{Readers: map[int]int{}}
		e.Mutexes[key] = s
	}
	return s
}

func (m *Mutex) Lock() {
	e := sched.Active()
	if e == nil {
		m.real.Lock()
		return
	}
	if e.Aborted() {
		return
	}
	sched.Point("Mutex.Lock")
	s := mstate(e, m)
	sched.Block(func() bool { return s.Writer == 0 }, "mutex")
	s.Writer = sched.CurrentTask() + 1
}

func (m *Mutex) Unlock() {
	e := sched.Active()
	if e == nil {
		m.real.Unlock()
		return
	}
	if e.Aborted() {
		return
	}
	s := mstate(e, m)
	if s.Writer == 0 {
		sched.Fault("unlock of an unlocked mutex")
	}
	s.Writer = 0
	sched.Point("Mutex.Unlock")
}

// RWMutex replaces sync.RWMutex.
type RWMutex struct{ real sync.RWMutex }

func (m *RWMutex) Lock() {
	e := sched.Active()
	if e == nil {
		m.real.Lock()
		return
	}
	if e.Aborted() {
		return
	}
	sched.Point("RWMutex.Lock")
	s := mstate(e, m)
	s.WaitingWriters++
	sched.Block(func() bool { return s.Writer == 0 && len(s.Readers) == 0 }, "rwmutex (write)")
	s.WaitingWriters--
	s.Writer = sched.CurrentTask() + 1
}

func (m *RWMutex) Unlock() {
	e := sched.Active()
	if e == nil {
		m.real.Unlock()
		return
	}
	if e.Aborted() {
		return
	}
	s := mstate(e, m)
	if s.Writer == 0 {
		sched.Fault("unlock of an unlocked rwmutex")
	}
	s.Writer = 0
	sched.Point("RWMutex.Unlock")
}

func (m *RWMutex) RLock() {
	e := sched.Active()
	if e == nil {
		m.real.RLock()
		return
	}
	if e.Aborted() {
		return
	}
	sched.Point("RWMutex.RLock")
	s := mstate(e, m)
	sched.Block(func() bool { return s.Writer == 0 && s.WaitingWriters == 0 }, "rwmutex (read)")
	s.Readers[sched.CurrentTask()]++
}

func (m *RWMutex) RUnlock() {
	e := sched.Active()
	if e == nil {
		m.real.RUnlock()
		return
	}
	if e.Aborted() {
		return
	}
	s := mstate(e, m)
	t := sched.CurrentTask()
	if s.Readers[t] == 0 {
		sched.Fault("runlock of an rwmutex not read-locked by this task")
	} else if s.Readers[t]--; s.Readers[t] == 0 {
		delete(s.Readers, t)
	}
	sched.Point("RWMutex.RUnlock")
}

// Pool replaces sync.Pool. Inside an execution it is a deterministic stack that
// starts empty in every execution and tracks ownership: an object put while it
// is already in the pool is a fault (it would be handed to two owners).
type Pool struct {
	New  func() interface{}
	real sync.Pool
	once sync.Once
}

func (p *Pool) init() {
	p.once.Do(func() { p.real.New = p.New })
}

func pstate(e *sched.Exec, key interface{}) *sched.PoolState {
	s := e.Pools[key]
	if s == nil {
		s = &sched.PoolState{In: map[interface{}]bool{}}
		e.Pools[key] = s
	}
	return s
}

func (p *Pool) Get() interface{} {
	e := sched.Active()
	if e == nil {
		p.init()
		return p.real.Get()
	}
	if e.Aborted() {
		if p.New == nil {
			return nil
		}
		return p.New()
	}
	sched.Point("Pool.Get")
	s := pstate(e, p)
	// environment choice: 0 = most recently put object (maximal reuse), then the
	// other pooled objects from newest to oldest, last = a fresh object
	n := len(s.Items)
	c := sched.Choose(n+1, "Pool.Get")
	if n == 0 || c == n {
		if p.New == nil {
			return nil
		}
		return p.New()
	}
	i := n - 1 - c
	x := s.Items[i]
	s.Items = append(s.Items[:i], s.Items[i+1:]...)
	delete(s.In, x)
	return x
}

func (p *Pool) Put(x interface{}) {
	e := sched.Active()
	if e == nil {
		p.init()
		p.real.Put(x)
		return
	}
	if e.Aborted() {
		return
	}
	sched.Point("Pool.Put")
	s := pstate(e, p)
	if s.In[x] {
		sched.Fault(fmt.Sprintf("an object of type %T was put into its sync.Pool while it was already in the pool: it will be handed to two owners", x))
	}
	s.In[x] = true
	s.Items = append(s.Items, x)
}

// Go replaces a `go` statement; src is its source text.
func Go(src string, fn func()) { sched.Go(src, fn) }

// MapPerm selects the order in which `range` over a package-level map visits its
// keys in the instrumented flavours: the MapPerm-th permutation (lexicographic, modulo
// n!) of the ascending key order. 0 = ascending. Go leaves the order unspecified, so
// every value is a legal environment answer; the harness enumerates them.
var MapPerm int

// SortedKeys returns the keys of m in the order selected by MapPerm (used for `range`
// over package-level maps, see harness/instrument).
func SortedKeys[K cmp.Ordered, V any](m map[K]V) []K {
	keys := make([]K, 0, len(m))
	for k := range m {
		keys = append(keys, k)
	}
	sort.Slice(keys, func(i, j int) bool { return keys[i] < keys[j] })
	if MapPerm == 0 || len(keys) < 2 {
		return keys
	}
	// k-th lexicographic permutation (factorial number system)
	n := len(keys)
	fact := 1
	for i := 2; i <= n; i++ {
		fact *= i
	}
	k := MapPerm % fact
	pool := append([]K(nil), keys...)
	out := make([]K, 0, n)
	for i := n; i >= 1; i-- {
		fact /= i
		j := k / fact
		k %= fact
		out = append(out, pool[j])
		pool = append(pool[:j], pool[j+1:]...)
	}
	return out
}
