// Package vatomic (package name atomic) is a drop-in replacement for the functions of
// sync/atomic in the instrumented flavours: inside a controlled execution every atomic
// operation is a scheduling point (it is a synchronisation operation: a load and a later
// add of one variable are two steps another goroutine can come between), outside one it
// only delegates. The Stat* variants have no scheduling point; the overlay generator uses
// them for write-only statistics counters (functions named *BytesRead* / *BytesWritten*),
// whose value no zapx code path depends on. The struct types of sync/atomic are passed
// through unchanged (their methods are not scheduling points).
package atomic

import (
	"sync/atomic"
	"unsafe"

	"verif/mc/sched"
)

type Value = atomic.Value
type Int32 = atomic.Int32
type Int64 = atomic.Int64
type Uint32 = atomic.Uint32
type Uint64 = atomic.Uint64
type Uintptr = atomic.Uintptr
type Bool = atomic.Bool

// Provided lists the identifiers of sync/atomic this package stands in for.
var Provided = map[string]bool{"Value": true, "Int32": true, "Int64": true, "Uint32": true, "Uint64": true, "Uintptr": true, "Bool": true,
	"LoadPointer": true, "StorePointer": true, "SwapPointer": true, "CompareAndSwapPointer": true,
	"LoadInt32": true, "StoreInt32": true, "AddInt32": true, "SwapInt32": true, "CompareAndSwapInt32": true, "LoadInt64": true, "StoreInt64": true, "AddInt64": true, "SwapInt64": true, "CompareAndSwapInt64": true, "LoadUint32": true, "StoreUint32": true, "AddUint32": true, "SwapUint32": true, "CompareAndSwapUint32": true, "LoadUint64": true, "StoreUint64": true, "AddUint64": true, "SwapUint64": true, "CompareAndSwapUint64": true, "LoadUintptr": true, "StoreUintptr": true, "AddUintptr": true, "SwapUintptr": true, "CompareAndSwapUintptr": true}

func point(op string) {
	if e := sched.Active(); e != nil && !e.Aborted() {
		sched.Point(op)
	}
}

func LoadPointer(addr *unsafe.Pointer) unsafe.Pointer {
	point("atomic.LoadPointer")
	return atomic.LoadPointer(addr)
}
func StorePointer(addr *unsafe.Pointer, v unsafe.Pointer) {
	point("atomic.StorePointer")
	atomic.StorePointer(addr, v)
}
func SwapPointer(addr *unsafe.Pointer, v unsafe.Pointer) unsafe.Pointer {
	point("atomic.SwapPointer")
	return atomic.SwapPointer(addr, v)
}
func CompareAndSwapPointer(addr *unsafe.Pointer, old, new unsafe.Pointer) bool {
	point("atomic.CompareAndSwapPointer")
	return atomic.CompareAndSwapPointer(addr, old, new)
}

func LoadInt32(addr *int32) int32 {
	point("atomic.LoadInt32")
	return atomic.LoadInt32(addr)
}

func StoreInt32(addr *int32, v int32) {
	point("atomic.StoreInt32")
	atomic.StoreInt32(addr, v)
}

func AddInt32(addr *int32, d int32) int32 {
	point("atomic.AddInt32")
	return atomic.AddInt32(addr, d)
}

func SwapInt32(addr *int32, v int32) int32 {
	point("atomic.SwapInt32")
	return atomic.SwapInt32(addr, v)
}

func CompareAndSwapInt32(addr *int32, old, new int32) bool {
	point("atomic.CompareAndSwapInt32")
	return atomic.CompareAndSwapInt32(addr, old, new)
}

func StatLoadInt32(addr *int32) int32 {
	return atomic.LoadInt32(addr)
}

func StatStoreInt32(addr *int32, v int32) {
	atomic.StoreInt32(addr, v)
}

func StatAddInt32(addr *int32, d int32) int32 {
	return atomic.AddInt32(addr, d)
}

func StatSwapInt32(addr *int32, v int32) int32 {
	return atomic.SwapInt32(addr, v)
}

func StatCompareAndSwapInt32(addr *int32, old, new int32) bool {
	return atomic.CompareAndSwapInt32(addr, old, new)
}

func LoadInt64(addr *int64) int64 {
	point("atomic.LoadInt64")
	return atomic.LoadInt64(addr)
}

func StoreInt64(addr *int64, v int64) {
	point("atomic.StoreInt64")
	atomic.StoreInt64(addr, v)
}

func AddInt64(addr *int64, d int64) int64 {
	point("atomic.AddInt64")
	return atomic.AddInt64(addr, d)
}

func SwapInt64(addr *int64, v int64) int64 {
	point("atomic.SwapInt64")
	return atomic.SwapInt64(addr, v)
}

func CompareAndSwapInt64(addr *int64, old, new int64) bool {
	point("atomic.CompareAndSwapInt64")
	return atomic.CompareAndSwapInt64(addr, old, new)
}

func StatLoadInt64(addr *int64) int64 {
	return atomic.LoadInt64(addr)
}

func StatStoreInt64(addr *int64, v int64) {
	atomic.StoreInt64(addr, v)
}

func StatAddInt64(addr *int64, d int64) int64 {
	return atomic.AddInt64(addr, d)
}

func StatSwapInt64(addr *int64, v int64) int64 {
	return atomic.SwapInt64(addr, v)
}

func StatCompareAndSwapInt64(addr *int64, old, new int64) bool {
	return atomic.CompareAndSwapInt64(addr, old, new)
}

func LoadUint32(addr *uint32) uint32 {
	point("atomic.LoadUint32")
	return atomic.LoadUint32(addr)
}

func StoreUint32(addr *uint32, v uint32) {
	point("atomic.StoreUint32")
	atomic.StoreUint32(addr, v)
}

func AddUint32(addr *uint32, d uint32) uint32 {
	point("atomic.AddUint32")
	return atomic.AddUint32(addr, d)
}

func SwapUint32(addr *uint32, v uint32) uint32 {
	point("atomic.SwapUint32")
	return atomic.SwapUint32(addr, v)
}

func CompareAndSwapUint32(addr *uint32, old, new uint32) bool {
	point("atomic.CompareAndSwapUint32")
	return atomic.CompareAndSwapUint32(addr, old, new)
}

func StatLoadUint32(addr *uint32) uint32 {
	return atomic.LoadUint32(addr)
}

func StatStoreUint32(addr *uint32, v uint32) {
	atomic.StoreUint32(addr, v)
}

func StatAddUint32(addr *uint32, d uint32) uint32 {
	return atomic.AddUint32(addr, d)
}

func StatSwapUint32(addr *uint32, v uint32) uint32 {
	return atomic.SwapUint32(addr, v)
}

func StatCompareAndSwapUint32(addr *uint32, old, new uint32) bool {
	return atomic.CompareAndSwapUint32(addr, old, new)
}

func LoadUint64(addr *uint64) uint64 {
	point("atomic.LoadUint64")
	return atomic.LoadUint64(addr)
}

func StoreUint64(addr *uint64, v uint64) {
	point("atomic.StoreUint64")
	atomic.StoreUint64(addr, v)
}

func AddUint64(addr *uint64, d uint64) uint64 {
	point("atomic.AddUint64")
	return atomic.AddUint64(addr, d)
}

func SwapUint64(addr *uint64, v uint64) uint64 {
	point("atomic.SwapUint64")
	return atomic.SwapUint64(addr, v)
}

func CompareAndSwapUint64(addr *uint64, old, new uint64) bool {
	point("atomic.CompareAndSwapUint64")
	return atomic.CompareAndSwapUint64(addr, old, new)
}

func StatLoadUint64(addr *uint64) uint64 {
	return atomic.LoadUint64(addr)
}

func StatStoreUint64(addr *uint64, v uint64) {
	atomic.StoreUint64(addr, v)
}

func StatAddUint64(addr *uint64, d uint64) uint64 {
	return atomic.AddUint64(addr, d)
}

func StatSwapUint64(addr *uint64, v uint64) uint64 {
	return atomic.SwapUint64(addr, v)
}

func StatCompareAndSwapUint64(addr *uint64, old, new uint64) bool {
	return atomic.CompareAndSwapUint64(addr, old, new)
}

func LoadUintptr(addr *uintptr) uintptr {
	point("atomic.LoadUintptr")
	return atomic.LoadUintptr(addr)
}

func StoreUintptr(addr *uintptr, v uintptr) {
	point("atomic.StoreUintptr")
	atomic.StoreUintptr(addr, v)
}

func AddUintptr(addr *uintptr, d uintptr) uintptr {
	point("atomic.AddUintptr")
	return atomic.AddUintptr(addr, d)
}

func SwapUintptr(addr *uintptr, v uintptr) uintptr {
	point("atomic.SwapUintptr")
	return atomic.SwapUintptr(addr, v)
}

func CompareAndSwapUintptr(addr *uintptr, old, new uintptr) bool {
	point("atomic.CompareAndSwapUintptr")
	return atomic.CompareAndSwapUintptr(addr, old, new)
}

func StatLoadUintptr(addr *uintptr) uintptr {
	return atomic.LoadUintptr(addr)
}

func StatStoreUintptr(addr *uintptr, v uintptr) {
	atomic.StoreUintptr(addr, v)
}

func StatAddUintptr(addr *uintptr, d uintptr) uintptr {
	return atomic.AddUintptr(addr, d)
}

func StatSwapUintptr(addr *uintptr, v uintptr) uintptr {
	return atomic.SwapUintptr(addr, v)
}

func StatCompareAndSwapUintptr(addr *uintptr, old, new uintptr) bool {
	return atomic.CompareAndSwapUintptr(addr, old, new)
}
