// Package vos replaces the few identifiers of package os that zapx's write paths
// use (OpenFile, Remove, the O_* flags), in the instrumented build flavours only
// and only in source files that do not mention the type os.File. Files opened
// through it can be made to fail in Write (n-th call), Sync and Close - faults that
// cannot be provoked through the operating system interface.
package vos

import (
	"errors"
	"os"
	"sync"
)

const (
	O_RDONLY = os.O_RDONLY
	O_WRONLY = os.O_WRONLY
	O_RDWR   = os.O_RDWR
	O_APPEND = os.O_APPEND
	O_CREATE = os.O_CREATE
	O_EXCL   = os.O_EXCL
	O_SYNC   = os.O_SYNC
	O_TRUNC  = os.O_TRUNC
)

type FileMode = os.FileMode

// Provided lists the identifiers this package can stand in for.
var Provided = map[string]bool{"O_RDONLY": true, "O_WRONLY": true, "O_RDWR": true, "O_APPEND": true, "O_CREATE": true,
	"O_EXCL": true, "O_SYNC": true, "O_TRUNC": true, "FileMode": true, "OpenFile": true, "Remove": true}

// Plan is the fault plan (zero value: no fault).
type Plan struct {
	FailWrite int // n-th Write call (1-based) on any file opened through vos fails
	FailSync  bool
	FailClose bool
}

var (
	mu     sync.Mutex
	plan   Plan
	writes int
	log    []string
)

var ErrInjected = errors.New("vos: injected fault")

// SetPlan installs a fault plan and clears the counters and the call log.
func SetPlan(p Plan) {
	mu.Lock()
	plan, writes, log = p, 0, nil
	mu.Unlock()
}

// Log returns the calls made since SetPlan ("open", "write", "sync", "close", "remove").
func Log() []string {
	mu.Lock()
	defer mu.Unlock()
	return append([]string(nil), log...)
}

// Writes returns the number of Write calls since SetPlan.
func Writes() int {
	mu.Lock()
	defer mu.Unlock()
	return writes
}

type File struct{ f *os.File }

func OpenFile(name string, flag int, perm FileMode) (*File, error) {
	f, err := os.OpenFile(name, flag, perm)
	if err != nil {
		return nil, err
	}
	mu.Lock()
	log = append(log, "open")
	mu.Unlock()
	return &File{f}, nil
}

func Remove(name string) error {
	mu.Lock()
	log = append(log, "remove")
	mu.Unlock()
	return os.Remove(name)
}

func (f *File) Write(p []byte) (int, error) {
	mu.Lock()
	writes++
	fail := plan.FailWrite == writes
	log = append(log, "write")
	mu.Unlock()
	if fail {
		return 0, ErrInjected
	}
	return f.f.Write(p)
}

func (f *File) Sync() error {
	mu.Lock()
	fail := plan.FailSync
	log = append(log, "sync")
	mu.Unlock()
	if fail {
		return ErrInjected
	}
	return f.f.Sync()
}

func (f *File) Close() error {
	mu.Lock()
	fail := plan.FailClose
	log = append(log, "close")
	mu.Unlock()
	err := f.f.Close()
	if fail {
		return ErrInjected
	}
	return err
}
