// Package zx wraps the zapx operations the checks drive.
package zx

import (
	"fmt"
	"math"
	"os"
	"path/filepath"
	"sync/atomic"

	"github.com/RoaringBitmap/roaring/v2"
	segment "github.com/blevesearch/scorch_segment_api/v2"
	zap "github.com/blevesearch/zapx/v16"

	"verif/ref"
	"verif/run"
	"verif/spec"
)

var Plugin = &zap.ZapPlugin{}

var fileSeq int64

// TempPath returns a fresh, non-existing path in the process' scratch directory.
func TempPath(tag string) string {
	n := atomic.AddInt64(&fileSeq, 1)
	if run.ScratchDir == "" {
		run.ScratchDir = run.Scratch()
	}
	return filepath.Join(run.ScratchDir, fmt.Sprintf("%s-%d.zap", tag, n))
}

// Build builds an in-memory segment with the given chunk mode.
func Build(b spec.Batch, chunkMode uint32) (segment.Segment, uint64, error) {
	// concurrent builds all use the default mode: the global is then only read
	if old := zap.DefaultChunkMode; old != chunkMode {
		zap.DefaultChunkMode = chunkMode
		defer func() { zap.DefaultChunkMode = old }()
	}
	return Plugin.New(b.Documents())
}

// PersistOpen persists an in-memory segment and opens the file.
func PersistOpen(seg segment.Segment) (segment.Segment, string, error) {
	us, ok := seg.(segment.UnpersistedSegment)
	if !ok {
		return nil, "", fmt.Errorf("segment %T is not an UnpersistedSegment", seg)
	}
	path := TempPath("p")
	if err := us.Persist(path); err != nil {
		return nil, path, fmt.Errorf("Persist: %v", err)
	}
	o, err := Plugin.Open(path)
	if err != nil {
		return nil, path, fmt.Errorf("Open: %v", err)
	}
	return o, path, nil
}

// Bitmap converts a drop vector to a roaring bitmap. mode: 0 = nil when nothing
// is dropped, 1 = empty bitmap when nothing is dropped.
func Bitmap(drops []bool, emptyAsNil bool) *roaring.Bitmap {
	any := false
	for _, d := range drops {
		any = any || d
	}
	if !any && emptyAsNil {
		return nil
	}
	bm := roaring.New()
	for i, d := range drops {
		if d {
			bm.Add(uint32(i))
		}
	}
	return bm
}

// Merge merges segs with drops under chunkMode into a fresh file.
func Merge(segs []segment.Segment, drops []*roaring.Bitmap, chunkMode uint32) (path string, maps [][]uint64, size uint64, err error) {
	old := zap.DefaultChunkMode
	zap.DefaultChunkMode = chunkMode
	defer func() { zap.DefaultChunkMode = old }()
	path = TempPath("m")
	maps, size, err = Plugin.Merge(segs, drops, path, nil, nil)
	return
}

// CheckMaps compares the renumbering maps returned by Merge with the expected ones.
func CheckMaps(exp, got [][]uint64) string {
	if len(exp) != len(got) {
		return fmt.Sprintf("Merge returned %d renumbering maps for %d input segments", len(got), len(exp))
	}
	for i := range exp {
		if len(exp[i]) != len(got[i]) {
			return fmt.Sprintf("renumbering map of segment %d has %d entries, want %d", i, len(got[i]), len(exp[i]))
		}
		for j := range exp[i] {
			if exp[i][j] != got[i][j] {
				return fmt.Sprintf("segment %d doc %d renumbered to %s, want %s", i, j, fmtDoc(got[i][j]), fmtDoc(exp[i][j]))
			}
		}
	}
	return ""
}

func fmtDoc(d uint64) string {
	if d == math.MaxUint64 {
		return "DROPPED"
	}
	return fmt.Sprint(d)
}

// FileSize returns the size of path or -1.
func FileSize(path string) int64 {
	st, err := os.Stat(path)
	if err != nil {
		return -1
	}
	return st.Size()
}

// Remove removes a file, ignoring errors.
func Remove(path string) { os.Remove(path) }

// Compare renders both contents restricted to sections and diffs them.
func Compare(exp, got *ref.Content, s ref.Sections) string {
	return ref.Diff(exp.Render(s), got.Render(s))
}
