// Package spec is the batch specification language of the harness: plain data
// describing analysed documents, from which fresh index.Document objects are
// built for every build (zapx mutates token-frequency maps while building).
package spec

import (
	"fmt"

	index "github.com/blevesearch/bleve_index_api"
)

type Loc struct {
	Field string   `json:"f,omitempty"` // "" = the field itself
	Pos   int      `json:"p"`
	Start int      `json:"s"`
	End   int      `json:"e"`
	AP    []uint64 `json:"ap,omitempty"`
}

type Tok struct {
	Term string `json:"t"`
	Freq int    `json:"n"`
	Locs []Loc  `json:"l,omitempty"`
}

type SynEntry struct {
	Term string   `json:"t"`
	Syns []string `json:"s"`
}

// Field kinds.
const (
	Text      = "t"
	Composite = "c"
	Synonym   = "s"
	Vector    = "v"
)

type Field struct {
	Name   string   `json:"name"`
	Kind   string   `json:"kind,omitempty"` // default text
	Stored bool     `json:"stored,omitempty"`
	DV     bool     `json:"dv,omitempty"`
	Value  []byte   `json:"val,omitempty"`
	Typ    byte     `json:"typ,omitempty"`
	AP     []uint64 `json:"ap,omitempty"`
	Len    int      `json:"len,omitempty"`
	Toks   []Tok    `json:"toks,omitempty"`
	// Shape, if set, makes the field a geo-shape field (index.GeoShapeField): its encoded
	// shape is an extra doc-value term of the document when the field has doc values
	Shape []byte `json:"shape,omitempty"`
	// synonym field
	Syn []SynEntry `json:"syn,omitempty"`
	// vector field
	Vec  []float32 `json:"vec,omitempty"`
	Dims int       `json:"dims,omitempty"`
	Sim  string    `json:"sim,omitempty"`
	Opt  string    `json:"opt,omitempty"`
}

type Doc struct {
	ID        string  `json:"id"`
	Fields    []Field `json:"fields,omitempty"`
	Composite []Field `json:"composite,omitempty"`
	// IDLast puts the automatically added `_id` field after the other fields
	// (bleve's AddIDField appends) instead of in front (the zapx test stubs).
	IDLast bool `json:"idlast,omitempty"`
}

type Batch struct {
	Docs []Doc `json:"docs"`
}

func (f Field) kind() string {
	if f.Kind == "" {
		return Text
	}
	return f.Kind
}

func (f Field) IsText() bool      { return f.kind() == Text }
func (f Field) IsComposite() bool { return f.kind() == Composite }
func (f Field) IsSynonym() bool   { return f.kind() == Synonym }
func (f Field) IsVector() bool    { return f.kind() == Vector }

// ---------------------------------------------------------------------------
// index.Document implementations

type doc struct {
	id        string
	fields    []index.Field
	composite []index.CompositeField
}

func (d *doc) ID() string                { return d.id }
func (d *doc) Size() int                 { return 0 }
func (d *doc) NumPlainTextBytes() uint64 { return 0 }
func (d *doc) StoredFieldsBytes() uint64 { return 0 }
func (d *doc) AddIDField()               {}
func (d *doc) Indexed() bool             { return true }
func (d *doc) HasComposite() bool        { return len(d.composite) > 0 }
func (d *doc) VisitFields(v index.FieldVisitor) {
	for _, f := range d.fields {
		v(f)
	}
}
func (d *doc) VisitComposite(v index.CompositeFieldVisitor) {
	for _, f := range d.composite {
		v(f)
	}
}

type synDoc struct{ doc }

func (d *synDoc) VisitSynonymFields(v index.SynonymFieldVisitor) {
	for _, f := range d.fields {
		if sf, ok := f.(index.SynonymField); ok {
			v(sf)
		}
	}
}

type field struct {
	name  string
	value []byte
	ap    []uint64
	typ   byte
	opts  index.FieldIndexingOptions
	alen  int
	freqs index.TokenFrequencies
}

func (f *field) Name() string                                     { return f.name }
func (f *field) Value() []byte                                    { return f.value }
func (f *field) ArrayPositions() []uint64                         { return f.ap }
func (f *field) EncodedFieldType() byte                           { return f.typ }
func (f *field) Analyze()                                         {}
func (f *field) Options() index.FieldIndexingOptions              { return f.opts }
func (f *field) AnalyzedLength() int                              { return f.alen }
func (f *field) AnalyzedTokenFrequencies() index.TokenFrequencies { return f.freqs }
func (f *field) NumPlainTextBytes() uint64                        { return 0 }

type shapeField struct {
	field
	shape []byte
}

func (f *shapeField) GeoShape() (index.GeoJSON, error) { return nil, nil }
func (f *shapeField) EncodedShape() []byte             { return f.shape }

type compField struct{ field }

func (f *compField) Compose(string, int, index.TokenFrequencies) {}

type synField struct {
	field
	entries []SynEntry
}

func (f *synField) IterateSynonyms(visitor func(term string, synonyms []string)) {
	for _, e := range f.entries {
		visitor(e.Term, append([]string(nil), e.Syns...))
	}
}

type vecField struct {
	field
	vec  []float32
	dims int
	sim  string
	opt  string
}

func (f *vecField) Vector() []float32         { return f.vec }
func (f *vecField) Dims() int                 { return f.dims }
func (f *vecField) Similarity() string        { return f.sim }
func (f *vecField) IndexOptimizedFor() string { return f.opt }

func buildField(sf Field) field {
	var opts index.FieldIndexingOptions = index.IndexField
	if sf.Stored {
		opts |= index.StoreField
	}
	if sf.DV {
		opts |= index.DocValues
	}
	freqs := make(index.TokenFrequencies, len(sf.Toks))
	for _, t := range sf.Toks {
		tf := &index.TokenFreq{Term: []byte(t.Term)}
		tf.SetFrequency(t.Freq)
		for _, l := range t.Locs {
			opts |= index.IncludeTermVectors
			tf.Locations = append(tf.Locations, &index.TokenLocation{
				Field:          l.Field,
				ArrayPositions: append([]uint64(nil), l.AP...),
				Start:          l.Start,
				End:            l.End,
				Position:       l.Pos,
			})
		}
		if _, dup := freqs[t.Term]; dup {
			panic(fmt.Sprintf("spec: duplicate token %q in one field instance", t.Term))
		}
		freqs[t.Term] = tf
	}
	typ := sf.Typ
	if typ == 0 {
		typ = 't'
	}
	var val []byte
	if sf.Value != nil {
		val = append([]byte{}, sf.Value...)
	}
	return field{
		name: sf.Name, value: val, ap: append([]uint64(nil), sf.AP...), typ: typ,
		opts: opts, alen: sf.Len, freqs: freqs,
	}
}

// IDField is the specification of the `_id` field the harness adds to every doc.
func IDField(id string) Field {
	return Field{Name: "_id", Stored: true, Value: []byte(id), Len: 1,
		Toks: []Tok{{Term: id, Freq: 1}}}
}

// AllFields returns the doc's fields including the automatically added `_id`
// field, in visiting order.
func (d Doc) AllFields() []Field {
	rv := make([]Field, 0, len(d.Fields)+1)
	if !d.IDLast {
		rv = append(rv, IDField(d.ID))
	}
	rv = append(rv, d.Fields...)
	if d.IDLast {
		rv = append(rv, IDField(d.ID))
	}
	return rv
}

// Documents builds fresh index.Document objects.
func (b Batch) Documents() []index.Document {
	rv := make([]index.Document, 0, len(b.Docs))
	for _, sd := range b.Docs {
		d := doc{id: sd.ID}
		isSyn := false
		for _, sf := range sd.AllFields() {
			switch {
			case sf.IsSynonym():
				isSyn = true
				f := buildField(sf)
				f.opts = 0
				d.fields = append(d.fields, &synField{field: f, entries: sf.Syn})
			case sf.IsVector():
				f := buildField(sf)
				d.fields = append(d.fields, &vecField{field: f, vec: append([]float32(nil), sf.Vec...),
					dims: sf.Dims, sim: sf.Sim, opt: sf.Opt})
			case sf.Shape != nil:
				f := buildField(sf)
				d.fields = append(d.fields, &shapeField{field: f, shape: append([]byte{}, sf.Shape...)})
			default:
				f := buildField(sf)
				d.fields = append(d.fields, &f)
			}
		}
		for _, sf := range sd.Composite {
			f := buildField(sf)
			d.composite = append(d.composite, &compField{f})
		}
		if isSyn {
			rv = append(rv, &synDoc{d})
		} else {
			dd := d
			rv = append(rv, &dd)
		}
	}
	return rv
}
