package enum

import (
	"fmt"

	"verif/spec"
)

// SynCase: the synonym family of C12 (also used as merge inputs by C13).
type SynCase struct {
	Docs []int  `json:"docs"` // per doc: 0 = ordinary text doc, 1.. = synonym doc menu
	Mode uint32 `json:"mode"`
}

var synEntries = [][]spec.SynEntry{
	{{Term: "a", Syns: []string{"x"}}},
	{{Term: "a", Syns: []string{"x", "y"}}},
	{{Term: "b", Syns: []string{"y"}}},
	{{Term: "a", Syns: []string{"x"}}, {Term: "b", Syns: []string{"x", "z"}}},
	{{Term: "b", Syns: []string{"x", "z"}}, {Term: "a", Syns: []string{"x"}}},
	{{Term: "a", Syns: []string{"y", "x"}}},
	{{Term: "a", Syns: []string{"x", "x"}}},
}

// threeTerms: a definition document with three left-hand terms (kinds 15 / 16, appended
// after the original numbering so that existing kind numbers keep their meaning).
var threeTerms = []spec.SynEntry{{Term: "a", Syns: []string{"x"}}, {Term: "c", Syns: []string{"z", "x"}}, {Term: "b", Syns: []string{"y"}}}

// noSynonyms: a definition document whose only term has NO synonym (kinds 17 / 18): the
// thesaurus exists (the field is there) but holds nothing.
var noSynonyms = []spec.SynEntry{{Term: "a", Syns: nil}}

// NumSynDocKinds = 1 ordinary + 2 thesauri x 7 entry shapes + 2 x the three-term shape + 2 x
// the synonym-less shape + 2 documents that feed BOTH thesauri (kinds 19 / 20: s1 then s2,
// s2 then s1; each field introduces a term).
// Kind 21: an ordinary text document whose text field (stored, doc values) is NAMED s1 - field
// names and thesaurus names share one name space inside a segment.
var NumSynDocKinds = 1 + 2*len(synEntries) + 2 + 2 + 2 + 1 + 1 + 1 + 1

// Kind 24: thesaurus s1, term a with 20 synonyms (x, y and 18 more): together with another
// definition of a the term has more (synonym, document) pairs than any small decoding batch.
var manySynonyms = func() []spec.SynEntry {
	syns := []string{"x", "y"}
	for i := 2; i < 20; i++ {
		syns = append(syns, fmt.Sprintf("m%02d", i))
	}
	return []spec.SynEntry{{Term: "a", Syns: syns}}
}()

// Kind 23: thesaurus s1 with the EMPTY string as a left-hand term (and a second term).
var emptyLHS = []spec.SynEntry{{Term: "", Syns: []string{"x", "y"}}, {Term: "b", Syns: []string{"z"}}}

// Kind 22: thesaurus s1, a term one of whose synonyms is the EMPTY string.
var emptySynonym = []spec.SynEntry{{Term: "a", Syns: []string{"", "x"}}, {Term: "b", Syns: []string{"y"}}}

func SynDoc(i int, kind int) spec.Doc {
	id := fmt.Sprintf("d%d", i)
	if kind == 0 {
		return spec.Doc{ID: id, Fields: []spec.Field{{Name: "f", Len: 1, Stored: true, Value: []byte("x"), Toks: []spec.Tok{{Term: "x", Freq: 1}}}}}
	}
	if kind == 2*len(synEntries)+10 {
		return spec.Doc{ID: id, IDLast: true, Fields: []spec.Field{{Name: "s1", Kind: spec.Synonym, Syn: manySynonyms}}}
	}
	if kind == 2*len(synEntries)+9 {
		return spec.Doc{ID: id, IDLast: true, Fields: []spec.Field{{Name: "s1", Kind: spec.Synonym, Syn: emptyLHS}}}
	}
	if kind == 2*len(synEntries)+8 {
		return spec.Doc{ID: id, IDLast: true, Fields: []spec.Field{{Name: "s1", Kind: spec.Synonym, Syn: emptySynonym}}}
	}
	if kind == 2*len(synEntries)+7 {
		return spec.Doc{ID: id, Fields: []spec.Field{{Name: "s1", Len: 2, Stored: true, DV: true, Value: []byte("text in s1"),
			Toks: []spec.Tok{{Term: "a", Freq: 1, Locs: []spec.Loc{{Pos: 1, Start: 0, End: 1}}}, {Term: "q", Freq: 1}}}}}
	}
	if kind > 2*len(synEntries)+4 {
		f1 := spec.Field{Name: "s1", Kind: spec.Synonym, Syn: []spec.SynEntry{{Term: "a", Syns: []string{"x"}}}}
		f2 := spec.Field{Name: "s2", Kind: spec.Synonym, Syn: []spec.SynEntry{{Term: "b", Syns: []string{"y", "x"}}}}
		if kind == 2*len(synEntries)+6 {
			f1, f2 = f2, f1
		}
		return spec.Doc{ID: id, IDLast: true, Fields: []spec.Field{f1, f2}}
	}
	if kind > 2*len(synEntries)+2 {
		name := []string{"s1", "s2"}[kind-2*len(synEntries)-3]
		return spec.Doc{ID: id, IDLast: true, Fields: []spec.Field{{Name: name, Kind: spec.Synonym, Syn: noSynonyms}}}
	}
	if kind > 2*len(synEntries) {
		name := []string{"s1", "s2"}[kind-2*len(synEntries)-1]
		return spec.Doc{ID: id, IDLast: true, Fields: []spec.Field{{Name: name, Kind: spec.Synonym, Syn: threeTerms}}}
	}
	k := kind - 1
	name := []string{"s1", "s2"}[k/len(synEntries)]
	return spec.Doc{ID: id, IDLast: true, Fields: []spec.Field{{Name: name, Kind: spec.Synonym, Syn: synEntries[k%len(synEntries)]}}}
}

func (c SynCase) Batch() spec.Batch {
	var b spec.Batch
	for i, k := range c.Docs {
		b.Docs = append(b.Docs, SynDoc(i, k))
	}
	return b
}

func (c SynCase) Key() string { return fmt.Sprintf("syn/%v/%d", c.Docs, c.Mode) }

func (c SynCase) NumSynDocs() int {
	n := 0
	for _, k := range c.Docs {
		if k != 0 && k != 21 {
			n++
		}
	}
	return n
}

func SynBatches(tier string, emit func(SynCase)) {
	for n := 1; n <= 2; n++ {
		Product(n, NumSynDocKinds, func(v []int) {
			c := SynCase{Docs: v, Mode: 1026}
			if c.NumSynDocs() == 0 {
				return
			}
			emit(c)
		})
	}
	// three documents: every kind for thesaurus s1, a reduced set for s2 (in quick)
	menu3 := []int{0, 1, 2, 3, 4, 5, 6, 7, 8, 10, 11, 15, 16, 17, 18, 19, 20, 21, 22, 23}
	if tier == "thorough" {
		menu3 = nil
		for k := 0; k < NumSynDocKinds; k++ {
			menu3 = append(menu3, k)
		}
	}
	ProductOf(3, menu3, func(v []int) {
		c := SynCase{Docs: v, Mode: 1026}
		if c.NumSynDocs() == 0 {
			return
		}
		emit(c)
	})
	if tier == "thorough" {
		// N=4: two ordinary documents around two synonym documents, and 4 synonym docs of a reduced menu
		ProductOf(4, []int{0, 1, 2, 4, 6, 9, 11, 12, 15}, func(v []int) {
			c := SynCase{Docs: v, Mode: 2}
			if c.NumSynDocs() > 0 {
				emit(c)
			}
		})
	}
}
