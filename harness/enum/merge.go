package enum

import (
	"fmt"

	"verif/spec"
)

// Expr is a merge expression: a leaf (menu item, built in memory or persisted
// and re-opened) or a merge of sub-expressions with one drop vector per input.
// A state of the merge state space is identified by the expression reaching it;
// successors are computed by replaying the expression on fresh objects.
type Expr struct {
	Leaf   int     `json:"leaf,omitempty"` // menu index + 1 (0 = not a leaf)
	Opened bool    `json:"opened,omitempty"`
	In     []Expr  `json:"in,omitempty"`
	Drops  [][]int `json:"drops,omitempty"`   // per input: nil = nil bitmap; [] = empty bitmap; else doc numbers
	DropOK []bool  `json:"dropset,omitempty"` // per input: true if Drops[i] is a (possibly empty) bitmap rather than nil
}

// MergeCase is one transition of the merge state space.
type MergeCase struct {
	Menu string `json:"menu"`
	Mode uint32 `json:"mode"`
	E    Expr   `json:"e"`
	// Pre, if set, is a merge evaluated BEFORE E on the same leaf objects: every menu item
	// (in the same provenance) is built once and used as input of both merges.
	Pre *Expr `json:"pre,omitempty"`
	// Share: equal leaves of E are ONE object (the same segment given twice to one merge)
	Share bool `json:"share,omitempty"`
}

func L(i int, opened bool) Expr { return Expr{Leaf: i + 1, Opened: opened} }

func (e Expr) Depth() int {
	if e.Leaf != 0 {
		return 0
	}
	d := 0
	for _, c := range e.In {
		if cd := c.Depth(); cd > d {
			d = cd
		}
	}
	return d + 1
}

func (e Expr) String() string {
	if e.Leaf != 0 {
		if e.Opened {
			return fmt.Sprintf("open(M%d)", e.Leaf-1)
		}
		return fmt.Sprintf("M%d", e.Leaf-1)
	}
	s := "merge("
	for i, c := range e.In {
		if i > 0 {
			s += ", "
		}
		s += c.String()
		if e.DropOK[i] {
			s += fmt.Sprintf("-%v", e.Drops[i])
		}
	}
	return s + ")"
}

// DropChoices returns the drop alternatives for a segment of n documents. If
// full, every subset; otherwise nil, empty, singletons, complements of singletons, all.
func DropChoices(n int, full bool) (drops [][]int, ok []bool) {
	add := func(d []int, isSet bool) {
		drops = append(drops, d)
		ok = append(ok, isSet)
	}
	add(nil, false)
	add([]int{}, true)
	if full || n <= 3 {
		for mask := 1; mask < 1<<uint(n); mask++ {
			var d []int
			for i := 0; i < n; i++ {
				if mask&(1<<uint(i)) != 0 {
					d = append(d, i)
				}
			}
			add(d, true)
		}
		return
	}
	seen := map[string]bool{}
	put := func(d []int) {
		k := fmt.Sprint(d)
		if !seen[k] && len(d) > 0 {
			seen[k] = true
			add(d, true)
		}
	}
	all := make([]int, n)
	for i := range all {
		all[i] = i
	}
	for i := 0; i < n; i++ {
		put([]int{i})
		var c []int
		for j := 0; j < n; j++ {
			if j != i {
				c = append(c, j)
			}
		}
		put(c)
	}
	put(all)
	return
}

// ---------------------------------------------------------------------------
// menus

func tok(term string, freq int, locs ...spec.Loc) spec.Tok {
	return spec.Tok{Term: term, Freq: freq, Locs: locs}
}

func fld(name string, length int, toks ...spec.Tok) spec.Field {
	return spec.Field{Name: name, Len: length, Toks: toks}
}

func stored(f spec.Field, val string, ap ...uint64) spec.Field {
	f.Stored = true
	f.Value = []byte(val)
	f.AP = ap
	return f
}

func dv(f spec.Field) spec.Field { f.DV = true; return f }

func shape(f spec.Field, enc string) spec.Field { f.Shape = []byte(enc); return f }

// TextMenu is the segment menu of C05/C06: every data-dependent branch of the
// merge has a trigger (see DESIGN.md 4 C05/C06).
func TextMenu() []spec.Batch {
	longAP := []uint64{1, 2, 3, 4, 5, 6, 7}
	ab2 := spec.Batch{Docs: []spec.Doc{
		{ID: "p0", Fields: []spec.Field{
			dv(fld("a", 3, tok("x", 2, loc(1, 1), loc(3, 2, 3)), tok("y", 1, loc(2)))),
			stored(fld("b", 1, tok("x", 1)), "bee", 4),
		}},
		{ID: "p1", Fields: []spec.Field{
			dv(fld("a", 1, tok("y", 1))),
			stored(fld("b", 1, tok("w", 0, loc(1))), ""),
		}},
	}}
	ab2b := spec.Batch{Docs: []spec.Doc{
		{ID: "q0", Fields: []spec.Field{
			dv(stored(fld("a", 1, tok("x", 1)), "ay")),
			fld("b", 2, tok("", 1, loc(1)), tok("é", 1)),
		}},
		{ID: "q1", Fields: []spec.Field{
			dv(fld("a", 1, tok("z", 1))),
		}},
	}}
	ac := []spec.Field{
		dv(fld("a", 2, tok("x", 1, loc(1)), tok("k", 1, loc(2)))),
		stored(fld("c", 1, tok("x", 1, spec.Loc{Pos: 1, Start: 0, End: 1, AP: []uint64{9, 8, 7, 6, 5, 4}})), "see", longAP...),
	}
	ac2 := spec.Batch{Docs: []spec.Doc{
		{ID: "r0", Fields: ac, Composite: []spec.Field{compositeOf(ac)}},
		{ID: "r1", Fields: []spec.Field{dv(fld("a", 1, tok("x", 1)))}, Composite: []spec.Field{compositeOf([]spec.Field{fld("a", 1, tok("x", 1))})}},
	}}
	c1 := spec.Batch{Docs: []spec.Doc{
		{ID: "s0", IDLast: true, Fields: []spec.Field{
			dv(stored(fld("c", 2, tok("x", 1, loc(1, 1, 2)), tok("", 1)), "one", 1)),
			stored(fld("c", 1, tok("x", 1, loc(1, 3))), "two", 2, 3, 4),
		}},
	}}
	ab3 := spec.Batch{Docs: []spec.Doc{
		{ID: "t0", Fields: []spec.Field{dv(fld("a", 1, tok("x", 1))), dv(stored(fld("b", 1, tok("x", 3, loc(2))), "b0"))}},
		{ID: "t1"},
		{ID: "p0", Fields: []spec.Field{dv(fld("a", 2, tok("x", 1), tok("y", 1))), dv(stored(fld("b", 1, tok("v", 1)), "b2"))}},
	}}
	vb2 := spec.Batch{Docs: []spec.Doc{
		{ID: "v0", Fields: []spec.Field{
			dv(fld("a", 128, tok("x", 64, spec.Loc{Pos: 128, Start: 127, End: 16384, AP: []uint64{128, 16383}}, spec.Loc{Pos: 16384, Start: 129, End: 255}), tok("y", 8192))),
			stored(fld("b", 16384, tok("x", 1, spec.Loc{Pos: 127, Start: 128, End: 129})), "vee", 128, 16384),
		}},
		{ID: "v1", Fields: []spec.Field{
			dv(fld("a", 127, tok("x", 1, spec.Loc{Pos: 1, Start: 0, End: 1}), tok("q", 1))),
		}},
	}}
	var tags []spec.Field
	for i := 0; i < 7; i++ {
		tags = append(tags, stored(fld("c", 1, tok(fmt.Sprintf("t%d", i%3), 1, loc(1+i, uint64(i)))), fmt.Sprintf("tag%d", i), uint64(i)))
	}
	gap3 := spec.Batch{Docs: []spec.Doc{
		{ID: "g0", Fields: append([]spec.Field{
			stored(fld("a", 1, tok("x", 1)), "first stored"),
			fld("b", 1, tok("x", 1)), // indexed, not stored
		}, tags...)},
		{ID: "g1", Fields: []spec.Field{
			stored(fld("a", 1, tok("y", 1)), "a-one"),
			fld("b", 2, tok("x", 1), tok("y", 1)),
			stored(fld("c", 1, tok("t0", 1)), "c-one", 5, 6),
		}},
		{ID: "g2", Fields: []spec.Field{
			fld("a", 1<<31+3, tok("huge", 1)), // single-hit eligible after a merge, field length beyond 31 bits
			fld("b", 0, tok("solo", 1)),       // single-hit eligible, field length 0 (norm bits 0)
			stored(fld("c", 1, tok("t1", 1)), "only c"),
		}},
	}}
	fz2 := spec.Batch{Docs: []spec.Doc{
		{ID: "z0", Fields: []spec.Field{
			dv(stored(fld("a", 2, tok("w", 0, loc(1), loc(2)), tok("x", 1)), "zed")),
			dv(fld("b", 0)), // doc values requested, no token at all
		}},
		{ID: "z1", Fields: []spec.Field{
			dv(fld("a", 1, tok("w", 0, loc(3)), tok("v", 0))),
			dv(stored(fld("b", 0), "zb", 3)), // stored under the second field only
		}},
		{ID: "z2", Fields: []spec.Field{
			dv(fld("a", 1, tok("w", 0))),
			shape(dv(fld("b", 0)), "SHAPE-z2"), // geo-shape field without tokens: the encoded shape is its only doc value
		}},
	}}
	return []spec.Batch{
		{}, // M0 empty batch
		{Docs: []spec.Doc{{ID: "o0", Fields: []spec.Field{stored(fld("a", 1, tok("x", 1)), "ex")}}}}, // M1 single doc, 1-hit eligible
		ab2,  // M2
		ab2b, // M3 same field list as M2
		ac2,  // M4 overlapping list, composite, location field translation
		c1,   // M5 disjoint from M1, long array positions, empty term
		ab3,  // M6 three docs, a document without fields, duplicate id across segments (p0)
		vb2,  // M7 same field list as M2/M3; frequencies, lengths and location values at varint boundaries
		gap3, // M8 three fields: stored / indexed-only / stored (a gap between stored fields); seven stored values with array positions in one document; single-document terms in fields of length 0 and of length 2^31+3
		fz2,  // M9 same field list as M2/M3: a frequency-0 term with locations in two documents of one chunk; a doc-value field without any token; stored values under a in one document and under b in another
	}
}

// SynMenu is the segment menu of C13.
func SynMenu() []spec.Batch {
	mk := func(kinds ...int) spec.Batch {
		var b spec.Batch
		for i, k := range kinds {
			b.Docs = append(b.Docs, SynDoc(i, k))
		}
		return b
	}
	return []spec.Batch{
		mk(1, 4),     // M0: s1: a->[x]; a->[x], b->[x,z]
		mk(6, 0),     // M1: s1: a->[y,x] (same synonyms, other id assignment) + ordinary doc
		mk(8, 10),    // M2: s2 only: a->[x]; b->[y]
		mk(3, 3, 11), // M3: s1: b->[y] twice; s2: a->[x], b->[x,z]
		mk(0),        // M4: no synonyms at all
		{},           // M5: empty batch
		mk(15, 16),   // M6: three-term thesauri s1 and s2 (a term loop with more than one term change)
	}
}

// BigMenu: segments large enough for a term's cardinality to cross the 1024 boundary of
// the cardinality-dependent chunk-size rules (modes 1025, 1026) during a merge.
func BigMenu() []spec.Batch {
	noX := spec.Batch{Docs: []spec.Doc{{ID: "nox", Fields: []spec.Field{dv(fld("a", 1, tok("q", 1, loc(1))))}}}}
	return []spec.Batch{
		noX, // M0: one document WITHOUT the big term (a term absent from an earlier input)
		BatchCase{Fam: "boundary", N: 1030, Card: 1030, Opt: 2}.Batch(), // M1: x in all 1030 documents
		BatchCase{Fam: "boundary", N: 600, Card: 600, Opt: 2}.Batch(),   // M2: x in all 600 documents
		BatchCase{Fam: "boundary", N: 1024, Card: 1020, Opt: 2}.Batch(), // M3: 1024 documents, x in 1020
		emptyTermBatch(700, "e"), // M4: 700 documents, every one with the empty term and a second field
		emptyTermBatch(700, "f"), // M5: the same shape with other ids
	}
}

func emptyTermBatch(n int, idPrefix string) spec.Batch {
	var b spec.Batch
	for d := 0; d < n; d++ {
		fa := fld("a", 1+d%3, tok("x", 1))
		if d == 0 {
			// the LAST term of the preceding field is rare: its chunk size differs from the
			// one the empty term (first term of field b, present everywhere) needs
			fa.Toks = append(fa.Toks, tok("zz-rare", 1))
		}
		b.Docs = append(b.Docs, spec.Doc{ID: fmt.Sprintf("%s%04d", idPrefix, d), Fields: []spec.Field{
			fa,
			fld("b", 2, tok("", 1+d%2, loc(1+d%5)), tok(fmt.Sprintf("w%d", d%4), 1)),
		}})
	}
	return b
}

// Cells1Menu: every single-document batch of the 12-entry cell menu over fields {a,b}
// (index = cellA*NumCells + cellB), with stored values and doc values on: the build
// alphabet of C01 reused as merge inputs, so that every pair of cell shapes meets in a merge.
func Cells1Menu() []spec.Batch {
	var rv []spec.Batch
	for ca := 0; ca < NumCells; ca++ {
		for cb := 0; cb < NumCells; cb++ {
			b := BatchCase{Fam: "cells", N: 1, Cells: []int{ca, cb}, Opt: 7}.Batch()
			b.Docs[0].ID = fmt.Sprintf("c%d-%d", ca, cb)
			rv = append(rv, b)
		}
	}
	return rv
}

// Cols3Menu: every 3-document batch whose documents draw field a from the 12-entry cell
// menu (index = (c0*NumCells+c1)*NumCells+c2; stored values and doc values on): hits of
// one term in up to three documents of one segment with every combination of frequency
// / norm / location shapes, so that a merge can drop the first, a middle or the last one.
func Cols3Menu() []spec.Batch {
	var rv []spec.Batch
	Product(3, NumCells, func(v []int) {
		var b spec.Batch
		for d, c := range v {
			doc := spec.Doc{ID: fmt.Sprintf("k%d-%d", d, c)}
			doc.Fields = append(doc.Fields, cell("a", c, 3)...)
			b.Docs = append(b.Docs, doc)
		}
		rv = append(rv, b)
	})
	return rv
}

// FieldSetsMenu: 16 single-document segments, one per subset of the field names
// {a,b,c,d} (item index = subset mask; item 0 has `_id` only). Every present field has a
// stored value naming field and item, doc values, a private term with a location and the
// shared term x. Merging ordered pairs and triples of them meets every combination of
// field lists: equal, prefix, disjoint, interleaved names, different lengths.
func FieldSetsMenu() []spec.Batch {
	var rv []spec.Batch
	names := []string{"a", "b", "c", "d"}
	for mask := 0; mask < 16; mask++ {
		doc := spec.Doc{ID: fmt.Sprintf("fs%02d", mask)}
		for i, n := range names {
			if mask&(1<<uint(i)) == 0 {
				continue
			}
			doc.Fields = append(doc.Fields, dv(stored(fld(n, 2, tok("t"+n, 1, loc(1+i)), tok("x", 1+i%2)), fmt.Sprintf("v-%s-%d", n, mask), uint64(mask))))
		}
		rv = append(rv, spec.Batch{Docs: []spec.Doc{doc}})
	}
	return rv
}

// SynAMenu: the BUILD alphabet of C12 reused as merge inputs: every batch of one
// document (items 0..14) and of two documents (items 15..239) over the 15 document kinds
// (ordinary; 2 thesauri x 7 definition shapes). Ids are unique per item.
func SynAMenu() []spec.Batch {
	var rv []spec.Batch
	for n := 1; n <= 2; n++ {
		Product(n, NumSynDocKinds, func(v []int) {
			b := SynCase{Docs: v}.Batch()
			for d := range b.Docs {
				b.Docs[d].ID = fmt.Sprintf("y%d-%d", len(rv), d)
			}
			rv = append(rv, b)
		})
	}
	return rv
}

// VecAMenu: the build alphabet of C14 as merge inputs: every batch of one (items 0..8)
// and of two documents (items 9..89) over the 9 vector cells, metric L2.
func VecAMenu() []spec.Batch {
	var rv []spec.Batch
	for n := 1; n <= 2; n++ {
		Product(n, 9, func(v []int) {
			b := VecCase{Docs: v, Metric: "l2_norm"}.Batch()
			for d := range b.Docs {
				b.Docs[d].ID = fmt.Sprintf("u%d-%d", len(rv), d)
			}
			rv = append(rv, b)
		})
	}
	return rv
}

// Stored1Menu: every single-document batch of the 9-entry stored-field cell menu.
func Stored1Menu() []spec.Batch {
	var rv []spec.Batch
	for ca := 0; ca < NumStoredCells; ca++ {
		for cb := 0; cb < NumStoredCells; cb++ {
			b := StoredCase{N: 1, Cells: []int{ca, cb}}.Batch()
			b.Docs[0].ID = fmt.Sprintf("s%d-%d", ca, cb)
			rv = append(rv, b)
		}
	}
	return rv
}

var menuCache = map[string][]spec.Batch{}

func menuOf(name string) []spec.Batch {
	if m, ok := menuCache[name]; ok {
		return m
	}
	m := menuOf1(name)
	menuCache[name] = m
	return m
}

func menuOf1(name string) []spec.Batch {
	switch name {
	case "cells1":
		return Cells1Menu()
	case "cols3":
		return Cols3Menu()
	case "fsets":
		return FieldSetsMenu()
	case "synA":
		return SynAMenu()
	case "vecA":
		return VecAMenu()
	case "stored1":
		return Stored1Menu()
	case "big":
		return BigMenu()
	case "text":
		return TextMenu()
	case "syn":
		return SynMenu()
	case "vec":
		return VecMenu()
	case "vecbig":
		return VecBigMenu()
	}
	panic("unknown menu " + name)
}

// Menu returns the named menu.
func Menu(name string) []spec.Batch { return menuOf(name) }

// VecMenu is the segment menu of C15.
func VecMenu() []spec.Batch {
	mk := func(metric string, cells ...int) spec.Batch {
		return VecCase{Docs: cells, Metric: metric}.Batch()
	}
	wOnly := spec.Batch{Docs: []spec.Doc{{ID: "w0", Fields: []spec.Field{fld("f", 1, tok("x", 1)),
		{Name: "w", Kind: spec.Vector, Vec: []float32{3, 2, 1, 0, 1, 0}, Dims: 3, Sim: "dot_product", Opt: "latency"}}}}}
	noVecField := spec.Batch{Docs: []spec.Doc{{ID: "n0", Fields: []spec.Field{fld("f", 1, tok("x", 1))}}}}
	return []spec.Batch{
		mk("l2_norm", 2, 4),    // M0: g1 ; g3
		mk("l2_norm", 6, 0, 2), // M1: two vectors in doc 0, doc 1 none, doc 2 g1 (identical to M0's doc 0)
		mk("l2_norm", 8),       // M2: two field instances in one doc
		noVecField,             // M3: field v absent
		mk("l2_norm", 0, 0),    // M4: documents but no vectors
		{},                     // M5: empty batch
		VecCase{Docs: []int{1, 3}, Metric: "l2_norm", Two: true}.Batch(), // M6: two vector fields (v in both docs, w in doc 0)
		wOnly, // M7: only the second vector field w
	}
}

// VecLattice: n documents with one 2-dimensional vector each on a 40-wide lattice
// starting at row y0 (distinct rows -> distinct vectors across menu items).
func VecLattice(n, y0 int, prefix, metric string) spec.Batch {
	var b spec.Batch
	for i := 0; i < n; i++ {
		x, y := float32(i%40), float32(y0+i/40)
		b.Docs = append(b.Docs, spec.Doc{ID: fmt.Sprintf("%s%04d", prefix, i), Fields: []spec.Field{
			{Name: "v", Kind: spec.Vector, Vec: []float32{x, y}, Dims: 2, Sim: metric, Opt: "recall"}}})
	}
	return b
}

// VecBigMenu: segments whose merges put the number of surviving vectors of field v
// at 999 / 1000 / 1001 / 1002 - around the boundary between the exact and the
// clustered index class (and of the centroid-count rule that has to agree with it).
func VecBigMenu() []spec.Batch {
	two := spec.Batch{Docs: []spec.Doc{{ID: "two", Fields: []spec.Field{
		{Name: "v", Kind: spec.Vector, Vec: []float32{0.5, 100.5, 1.5, 100.5}, Dims: 2, Sim: "l2_norm", Opt: "recall"}}}}}
	return []spec.Batch{
		VecLattice(500, 0, "a", "l2_norm"),   // M0: 500 vectors
		VecLattice(500, 20, "b", "l2_norm"),  // M1: 500 other vectors
		VecLattice(1001, 40, "c", "l2_norm"), // M2: 1001 vectors (clustered class on its own)
		two,                                  // M3: one document with two vectors
	}
}

// ---------------------------------------------------------------------------
// generation

// lists enumerates ordered lists over [0,n) of length 1..maxLen.
func lists(n, maxLen int, f func(l []int)) {
	for l := 1; l <= maxLen; l++ {
		Product(l, n, f)
	}
}

// forDrops enumerates every drop vector for inputs with the given doc counts.
func forDrops(counts []int, full bool, f func(drops [][]int, ok []bool)) {
	type ch struct {
		d  [][]int
		ok []bool
	}
	chs := make([]ch, len(counts))
	for i, n := range counts {
		d, ok := DropChoices(n, full)
		chs[i] = ch{d, ok}
	}
	idx := make([]int, len(counts))
	var rec func(i int)
	rec = func(i int) {
		if i == len(counts) {
			drops := make([][]int, len(counts))
			ok := make([]bool, len(counts))
			for j := range counts {
				drops[j] = chs[j].d[idx[j]]
				ok[j] = chs[j].ok[idx[j]]
			}
			f(drops, ok)
			return
		}
		for k := range chs[i].d {
			idx[i] = k
			rec(i + 1)
		}
	}
	rec(0)
}

// ForDrops is the exported form of forDrops.
func ForDrops(counts []int, full bool, f func(drops [][]int, ok []bool)) { forDrops(counts, full, f) }
