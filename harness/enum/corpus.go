package enum

// CorpusItem defines one file of the frozen corpus (files written by the pinned
// commit; see harness/cmd/corpusgen). The definitions are code so that the check
// can recompute the reference content of every file.
type CorpusItem struct {
	Name  string
	Batch *AnyBatch
	Merge *MergeCase
}

func cellsCase(n int, cells []int, comp bool, opt int, mode uint32) *AnyBatch {
	return &AnyBatch{Cells: &BatchCase{Fam: "cells", N: n, Cells: cells, Comp: comp, Opt: opt, Mode: mode}}
}

// CorpusItems lists the corpus. Never reorder or change existing entries: the
// files on disk were written from exactly these definitions.
func CorpusItems() []CorpusItem {
	var items []CorpusItem
	add := func(name string, b *AnyBatch) { items = append(items, CorpusItem{Name: name, Batch: b}) }
	addM := func(name string, menu string, mode uint32, e Expr) {
		items = append(items, CorpusItem{Name: name, Merge: &MergeCase{Menu: menu, Mode: mode, E: e}})
	}
	for _, mode := range ChunkModesSmall {
		add("cells3-mode"+itoa(int(mode)), cellsCase(3, []int{3, 5, 4, 10, 7, 8}, true, 7, mode))
	}
	add("empty", cellsCase(0, nil, false, 0, 1026))
	add("single-doc-idlast", cellsCase(1, []int{9, 6}, false, 15, 1025))
	for _, mode := range []uint32{2, 3, 1024} {
		add("column7-mode"+itoa(int(mode)), &AnyBatch{Cells: &BatchCase{Fam: "column", N: 7, Cells: []int{1, 2, 0, 3, 1, 2, 3}, Comp: true, Opt: 3, Mode: mode}})
	}
	add("boundary-1025-card1025-mode1025", &AnyBatch{Cells: &BatchCase{Fam: "boundary", N: 1025, Card: 1025, Opt: 3, Mode: 1025}})
	add("boundary-2049-card1025-mode1026", &AnyBatch{Cells: &BatchCase{Fam: "boundary", N: 2049, Card: 1025, Opt: 3, Mode: 1026}})
	add("stored-big-and-arrays", &AnyBatch{Stored: &StoredCase{N: 3, Cells: []int{7, 6, 5, 8, 2, 3}, Mode: 2}})
	add("stored-dup-ids", &AnyBatch{Stored: &StoredCase{N: 2, Cells: []int{3, 4, 6, 0}, DupIDs: true, IDLast: true, Mode: 1}})
	add("docvalues-sparse", &AnyBatch{DV: &DVCase{N: 4, Cells: []int{5, 0, 6, 3}, BDV: true, Legacy: 1024, L: 1}})
	add("synonyms-two-thesauri", &AnyBatch{Syn: &SynCase{Docs: []int{4, 0, 11}, Mode: 1026}})
	add("synonyms-shared", &AnyBatch{Syn: &SynCase{Docs: []int{1, 6, 3}, Mode: 2}})

	nd := func(n int) ([]int, bool) { return nil, false }
	_ = nd
	m := func(ins []Expr, drops [][]int) Expr {
		ok := make([]bool, len(ins))
		for i := range drops {
			ok[i] = drops[i] != nil
		}
		return Expr{In: ins, Drops: drops, DropOK: ok}
	}
	for _, mode := range []uint32{1, 1026} {
		tag := "-mode" + itoa(int(mode))
		addM("merge-same-fields"+tag, "text", mode, m([]Expr{L(2, false), L(3, true)}, [][]int{nil, nil}))
		addM("merge-with-deletions"+tag, "text", mode, m([]Expr{L(2, false), L(6, false), L(4, true)}, [][]int{{0}, {1}, {}}))
		addM("merge-1hit"+tag, "text", mode, m([]Expr{L(1, false), L(3, false)}, [][]int{nil, {0}}))
		once := m([]Expr{L(3, false), L(1, true), L(5, false)}, [][]int{nil, nil, nil})
		addM("merge-twice"+tag, "text", mode, m([]Expr{once, L(6, false)}, [][]int{{1}, {0, 1}}))
		addM("merge-thrice"+tag, "text", mode, m([]Expr{m([]Expr{once}, [][]int{{0}})}, [][]int{nil}))
	}
	addM("merge-empty-inputs", "text", 1026, m([]Expr{L(0, false), L(0, true)}, [][]int{nil, {}}))
	addM("merge-one-field-no-survivor", "text", 1026, m([]Expr{L(0, false)}, [][]int{nil}))
	addM("merge-synonyms", "syn", 1026, m([]Expr{L(0, false), L(1, true), L(2, false)}, [][]int{nil, nil, nil}))
	addM("merge-synonyms-deletions", "syn", 1026, m([]Expr{L(3, false), L(0, false)}, [][]int{{0, 1}, {1}}))
	addM("merge-synonyms-twice", "syn", 2, m([]Expr{m([]Expr{L(0, false), L(3, false)}, [][]int{{0}, nil}), L(1, false)}, [][]int{nil, nil}))
	return items
}

func itoa(n int) string {
	if n == 0 {
		return "0"
	}
	s := ""
	for n > 0 {
		s = string(rune('0'+n%10)) + s
		n /= 10
	}
	return s
}
