package enum

import (
	"fmt"

	"verif/spec"
)

// StoredCase: the stored-field family of C02.
type StoredCase struct {
	N      int    `json:"n"`
	Cells  []int  `json:"cells"` // per doc x field {a,b}
	IDLast bool   `json:"idlast,omitempty"`
	DupIDs bool   `json:"dup,omitempty"` // docs 0 and 1 share an id
	Mode   uint32 `json:"mode"`
	// Order of the field instances inside a document: 0 = all of a, then all of b;
	// 1 = all of b, then all of a; 2 = interleaved a[0] b[0] a[1] b[1] (the shape of a
	// flattened array of sub-objects: a field name recurs after a value of another field)
	Order int `json:"order,omitempty"`
}

const NumStoredCells = 10

func pseudoRandom(n int, seed uint32) []byte {
	b := make([]byte, n)
	x := seed*2654435761 + 12345
	for i := range b {
		x ^= x << 13
		x ^= x >> 17
		x ^= x << 5
		b[i] = byte(x)
	}
	return b
}

func storedCell(name string, m int, doc int) []spec.Field {
	tok := []spec.Tok{{Term: "t" + name, Freq: 1}}
	mk := func(stored bool, val []byte, typ byte, ap ...uint64) spec.Field {
		return spec.Field{Name: name, Stored: stored, Value: val, Typ: typ, AP: ap, Len: 1, Toks: tok}
	}
	switch m {
	case 0:
		return nil
	case 1:
		return []spec.Field{mk(false, []byte("hidden"), 't')}
	case 2:
		return []spec.Field{mk(true, []byte{}, 't')}
	case 3:
		return []spec.Field{mk(true, []byte(fmt.Sprintf("v-%s-%d", name, doc)), 't')}
	case 4:
		return []spec.Field{mk(true, []byte("one"), 'n', 7)}
	case 5:
		return []spec.Field{mk(true, []byte("three"), 'd', 0, 300, 1<<40)}
	case 6:
		f1 := mk(true, []byte("first"), 't', 0)
		f2 := mk(true, []byte("second"), 'n', 1)
		f2.Toks = []spec.Tok{{Term: "u" + name, Freq: 1}}
		return []spec.Field{f1, f2}
	case 7:
		big := make([]byte, 70000)
		for i := range big {
			big[i] = byte('a' + (i/7)%3)
		}
		return []spec.Field{mk(true, big, 't')}
	case 8:
		return []spec.Field{mk(true, pseudoRandom(300, uint32(doc+1)), 'b', 2, 2)}
	case 9:
		// an array of 14 values under one field name (more than a dozen stored values in one
		// document: their order is part of the contract)
		var rv []spec.Field
		for i := 0; i < 14; i++ {
			f := mk(true, []byte(fmt.Sprintf("%s-elem-%02d", name, i)), 't', uint64(i))
			f.Toks = []spec.Tok{{Term: fmt.Sprintf("e%d", i%3), Freq: 1}}
			rv = append(rv, f)
		}
		return rv
	}
	panic("bad stored cell")
}

func (c StoredCase) Batch() spec.Batch {
	var b spec.Batch
	for d := 0; d < c.N; d++ {
		id := fmt.Sprintf("d%d", d)
		if c.DupIDs && d == 1 {
			id = "d0"
		}
		doc := spec.Doc{ID: id, IDLast: c.IDLast}
		fa, fb := storedCell(fieldNames[0], c.Cells[d*2], d), storedCell(fieldNames[1], c.Cells[d*2+1], d)
		switch c.Order {
		case 1:
			doc.Fields = append(append(doc.Fields, fb...), fa...)
		case 2:
			for i := 0; i < len(fa) || i < len(fb); i++ {
				if i < len(fa) {
					doc.Fields = append(doc.Fields, fa[i])
				}
				if i < len(fb) {
					doc.Fields = append(doc.Fields, fb[i])
				}
			}
		default:
			doc.Fields = append(append(doc.Fields, fa...), fb...)
		}
		b.Docs = append(b.Docs, doc)
	}
	return b
}

func (c StoredCase) Key() string {
	return fmt.Sprintf("stored/%d/%v/%v/%v/%d/%d", c.N, c.Cells, c.IDLast, c.DupIDs, c.Mode, c.Order)
}

func StoredBatches(tier string, emit func(StoredCase)) {
	full := make([]int, NumStoredCells)
	for i := range full {
		full[i] = i
	}
	emit(StoredCase{N: 0, Mode: 1026})
	ProductOf(2, full, func(v []int) {
		for _, idl := range []bool{false, true} {
			for order := 0; order < 3; order++ {
				emit(StoredCase{N: 1, Cells: v, IDLast: idl, Mode: 1026, Order: order})
			}
		}
	})
	menu2 := full
	if tier == "quick" {
		menu2 = []int{0, 1, 2, 3, 5, 6, 8, 9}
	}
	ProductOf(4, menu2, func(v []int) {
		emit(StoredCase{N: 2, Cells: v, Mode: 1026})
		if ((v[0] == 6 || v[0] == 9) && (v[1] == 6 || v[1] == 9)) || ((v[2] == 6 || v[2] == 9) && (v[3] == 6 || v[3] == 9)) {
			emit(StoredCase{N: 2, Cells: v, Mode: 1026, Order: 2})
			emit(StoredCase{N: 2, Cells: v, Mode: 1026, Order: 1})
		}
		if v[0] == 3 {
			emit(StoredCase{N: 2, Cells: v, DupIDs: true, IDLast: true, Mode: 1})
		}
	})
	menu3 := []int{0, 2, 3, 6}
	if tier == "thorough" {
		menu3 = []int{0, 1, 2, 3, 6, 7}
	}
	ProductOf(6, menu3, func(v []int) {
		emit(StoredCase{N: 3, Cells: v, Mode: 2, DupIDs: v[0] == 6})
	})
}
