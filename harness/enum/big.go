package enum

import (
	"fmt"

	"verif/spec"
)

// BigCase: a segment whose stored data pushes every later offset (postings,
// dictionaries, doc-value regions, section tables) beyond a varint width
// boundary (2^14, 2^21 bytes).
type BigCase struct {
	Size int    `json:"size"` // bytes of incompressible stored data in front of the index sections
	Mode uint32 `json:"mode"`
}

func (c BigCase) Batch() spec.Batch {
	var b spec.Batch
	for d := 0; d < 3; d++ {
		doc := spec.Doc{ID: fmt.Sprintf("big%d", d)}
		doc.Fields = append(doc.Fields, spec.Field{Name: "a", DV: true, Len: 2, Toks: []spec.Tok{{Term: "x", Freq: 1, Locs: []spec.Loc{{Pos: 1, Start: 0, End: 1}}}, {Term: fmt.Sprintf("t%d", d), Freq: 1}}})
		doc.Fields = append(doc.Fields, spec.Field{Name: "z", DV: true, Stored: true, Value: []byte("zed"), Len: 1, Toks: []spec.Tok{{Term: "zed", Freq: 1}}})
		if d == 0 {
			doc.Fields = append(doc.Fields, spec.Field{Name: "blob", Stored: true, Typ: 'b', Value: pseudoRandom(c.Size, 7), Len: 1, Toks: []spec.Tok{{Term: "blob", Freq: 1}}})
		}
		if d == 2 {
			doc.Fields = append(doc.Fields, spec.Field{Name: "s1", Kind: spec.Synonym, Syn: []spec.SynEntry{{Term: "a", Syns: []string{"x", "y"}}}})
		}
		b.Docs = append(b.Docs, doc)
	}
	return b
}

func (c BigCase) Key() string { return fmt.Sprintf("big/%d/%d", c.Size, c.Mode) }

func BigBatches(tier string, emit func(BigCase)) {
	for _, size := range []int{100, 16300, 16500, 300000, 2097000, 2200000} {
		for _, mode := range []uint32{1026, 2} {
			emit(BigCase{Size: size, Mode: mode})
		}
	}
}
