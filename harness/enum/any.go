package enum

import "verif/spec"

// AnyBatch is a batch of any family (exactly one member set).
type AnyBatch struct {
	Cells  *BatchCase  `json:"cells,omitempty"`
	Stored *StoredCase `json:"stored,omitempty"`
	DV     *DVCase     `json:"dv,omitempty"`
	Syn    *SynCase    `json:"syn,omitempty"`
	Vec    *VecCase    `json:"vec,omitempty"`
	Big    *BigCase    `json:"big,omitempty"`
}

func (a AnyBatch) Batch() spec.Batch {
	switch {
	case a.Cells != nil:
		return a.Cells.Batch()
	case a.Stored != nil:
		return a.Stored.Batch()
	case a.DV != nil:
		return a.DV.Batch()
	case a.Syn != nil:
		return a.Syn.Batch()
	case a.Vec != nil:
		return a.Vec.Batch()
	case a.Big != nil:
		return a.Big.Batch()
	}
	return spec.Batch{}
}

func (a AnyBatch) Mode() uint32 {
	switch {
	case a.Cells != nil:
		return a.Cells.Mode
	case a.Stored != nil:
		return a.Stored.Mode
	case a.Syn != nil:
		return a.Syn.Mode
	case a.Vec != nil:
		return a.Vec.Mode
	case a.Big != nil:
		return a.Big.Mode
	}
	return 1026
}

func (a AnyBatch) Key() string {
	switch {
	case a.Cells != nil:
		return a.Cells.Key()
	case a.Stored != nil:
		return a.Stored.Key()
	case a.DV != nil:
		return a.DV.Key()
	case a.Syn != nil:
		return a.Syn.Key()
	case a.Vec != nil:
		return a.Vec.Key()
	case a.Big != nil:
		return a.Big.Key()
	}
	return "empty"
}

// AllFamilies enumerates a curated cross-section of every family (used by the
// checks that are about persistence / layout rather than one feature).
func AllFamilies(tier string, withVectors bool, emit func(AnyBatch)) {
	CellBatches(tier, func(c BatchCase) {
		cc := c
		// all of N<=1, and for larger N the cases whose cells contain a multi-instance
		// or freq-0 or empty-term shape (the shapes with special encodings)
		if c.N >= 2 {
			special := false
			for _, m := range c.Cells {
				if m == 5 || m == 7 || m == 8 || m == 10 || m == 11 {
					special = true
				}
			}
			if !special {
				return
			}
		}
		emit(AnyBatch{Cells: &cc})
	})
	ColumnBatches(tier, func(c BatchCase) {
		cc := c
		if c.N > 5 {
			return
		}
		emit(AnyBatch{Cells: &cc})
	})
	BoundaryBatches(tier, func(c BatchCase) {
		cc := c
		emit(AnyBatch{Cells: &cc})
	})
	WideBatches(tier, func(c BatchCase) {
		cc := c
		emit(AnyBatch{Cells: &cc})
	})
	StoredBatches(tier, func(c StoredCase) {
		cc := c
		emit(AnyBatch{Stored: &cc})
	})
	DVBatches(tier, func(c DVCase) {
		cc := c
		if c.Legacy != 2 && c.Legacy != 1024 {
			return
		}
		emit(AnyBatch{DV: &cc})
	})
	SynBatches(tier, func(c SynCase) {
		cc := c
		emit(AnyBatch{Syn: &cc})
	})
	BigBatches(tier, func(c BigCase) {
		cc := c
		emit(AnyBatch{Big: &cc})
	})
	if withVectors {
		VecBatches(tier, func(c VecCase) {
			cc := c
			emit(AnyBatch{Vec: &cc})
		})
	}
}
