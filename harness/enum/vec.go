package enum

import (
	"fmt"

	"verif/spec"
)

// VecCase: the vector family of C14 (also merge inputs of C15). Dimension 2,
// vectors from a 5-point grid.
type VecCase struct {
	Docs   []int  `json:"docs"` // per doc: index into the vector-cell menu
	Metric string `json:"metric"`
	Mode   uint32 `json:"mode"`
	Two    bool   `json:"two,omitempty"` // a second vector field "w" on doc 0
}

// Grid is the vector alphabet.
var Grid = [][]float32{{0, 0}, {1, 0}, {0, 1}, {1, 1}, {2, 1}}

// vector cells per document: 0 none; 1..5 one grid vector; 6 two vectors (g1,g3)
// as one concatenated field value; 7 two vectors (g1,g1) identical; 8 two
// separate field instances (g2),(g4)
const NumVecCells = 9

func vecCell(m int, metric string) []spec.Field {
	mk := func(vs ...int) spec.Field {
		var v []float32
		for _, g := range vs {
			v = append(v, Grid[g]...)
		}
		return spec.Field{Name: "v", Kind: spec.Vector, Vec: v, Dims: 2, Sim: metric, Opt: "recall"}
	}
	switch {
	case m == 0:
		return nil
	case m <= 5:
		return []spec.Field{mk(m - 1)}
	case m == 6:
		return []spec.Field{mk(1, 3)}
	case m == 7:
		return []spec.Field{mk(1, 1)}
	case m == 8:
		return []spec.Field{mk(2), mk(4)}
	}
	panic("bad vec cell")
}

func (c VecCase) Batch() spec.Batch {
	var b spec.Batch
	for i, m := range c.Docs {
		doc := spec.Doc{ID: fmt.Sprintf("d%d", i)}
		doc.Fields = append(doc.Fields, spec.Field{Name: "f", Len: 1, Toks: []spec.Tok{{Term: "x", Freq: 1}}})
		doc.Fields = append(doc.Fields, vecCell(m, c.Metric)...)
		if c.Two && i == 0 {
			// the second field always uses ANOTHER metric than the first one
			wm := "l2_norm"
			if c.Metric == "l2_norm" {
				wm = "dot_product"
			}
			doc.Fields = append(doc.Fields, spec.Field{Name: "w", Kind: spec.Vector, Vec: []float32{1, 2, 3}, Dims: 3, Sim: wm, Opt: "latency"})
		}
		b.Docs = append(b.Docs, doc)
	}
	return b
}

func (c VecCase) Key() string { return fmt.Sprintf("vec/%v/%s/%d/%v", c.Docs, c.Metric, c.Mode, c.Two) }

func (c VecCase) NumVecs() int {
	n := 0
	for _, m := range c.Docs {
		switch {
		case m == 0:
		case m <= 5:
			n++
		default:
			n += 2
		}
	}
	return n
}

var Metrics = []string{"l2_norm", "dot_product", "cosine"}

func VecBatches(tier string, emit func(VecCase)) {
	maxN := 3
	if tier == "thorough" {
		maxN = 4
	}
	for n := 1; n <= maxN; n++ {
		menu := []int{0, 1, 2, 3, 4, 5, 6, 7, 8}
		if n == 3 {
			menu = []int{0, 1, 2, 4, 6, 7, 8}
		}
		if n == 4 {
			menu = []int{0, 2, 4, 6, 7, 8}
		}
		ProductOf(n, menu, func(v []int) {
			for mi, metric := range Metrics {
				if n >= 3 && mi == 2 {
					continue
				}
				emit(VecCase{Docs: v, Metric: metric, Mode: 1026, Two: n == 2 && v[0] == 1})
			}
		})
	}
}
