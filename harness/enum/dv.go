package enum

import (
	"fmt"

	"verif/spec"
)

// DVCase: the doc-value family of C03.
type DVCase struct {
	N      int    `json:"n"`
	Cells  []int  `json:"cells"` // per doc: a-cell*2 + b-cell
	BDV    bool   `json:"bdv"`   // field b indexed with doc values too
	Legacy uint32 `json:"legacy"`
	L      int    `json:"l"` // max visiting-sequence length
}

// a-cells: 0 absent, 1 {x}, 2 {x,y}, 3 {""}, 4 present with doc values but without any token; b-cells: 0 absent, 1 {x z}
const NumDVCells = 10

func (c DVCase) batch(reverse bool) spec.Batch {
	var b spec.Batch
	for i := 0; i < c.N; i++ {
		d := i
		if reverse {
			d = c.N - 1 - i
		}
		doc := spec.Doc{ID: fmt.Sprintf("d%d", i)}
		ac, bc := c.Cells[d]/2, c.Cells[d]%2
		switch ac {
		case 1:
			doc.Fields = append(doc.Fields, spec.Field{Name: "a", DV: true, Len: 1, Toks: []spec.Tok{{Term: "x", Freq: 1}}})
		case 2:
			doc.Fields = append(doc.Fields, spec.Field{Name: "a", DV: true, Len: 2, Toks: []spec.Tok{{Term: "x", Freq: 1}, {Term: "y", Freq: 2, Locs: []spec.Loc{loc(1)}}}})
		case 3:
			doc.Fields = append(doc.Fields, spec.Field{Name: "a", DV: true, Len: 1, Toks: []spec.Tok{{Term: "", Freq: 1}}})
		case 4:
			doc.Fields = append(doc.Fields, spec.Field{Name: "a", DV: true, Len: 0})
		}
		if bc == 1 {
			doc.Fields = append(doc.Fields, spec.Field{Name: "b", DV: c.BDV, Len: 2, Toks: []spec.Tok{{Term: "x", Freq: 1}, {Term: "z", Freq: 0}}})
		}
		b.Docs = append(b.Docs, doc)
	}
	return b
}

func (c DVCase) Batch() spec.Batch    { return c.batch(false) }
func (c DVCase) Reversed() spec.Batch { return c.batch(true) }
func (c DVCase) Key() string          { return fmt.Sprintf("dv/%d/%v/%v/%d", c.N, c.Cells, c.BDV, c.Legacy) }

func DVBatches(tier string, emit func(DVCase)) {
	maxN, L := 3, 4
	if tier == "thorough" {
		maxN, L = 4, 5
	}
	for n := 1; n <= maxN; n++ {
		Product(n, NumDVCells, func(v []int) {
			for _, legacy := range []uint32{1, 2, 3, 1024} {
				for _, bdv := range []bool{true, false} {
					l := L
					if n == 4 {
						l = 4
					}
					emit(DVCase{N: n, Cells: v, BDV: bdv, Legacy: legacy, L: l})
				}
			}
		})
	}
	// N=7 with fixed orders is produced by L=0 (special: ascending, descending, zig-zag)
	Product(7, 3, func(v []int) {
		cells := make([]int, 7)
		for i, x := range v {
			cells[i] = []int{0, 2, 5}[x] // (cells are a-cell*2 + b-cell)
		}
		if tier == "quick" && (v[0]+v[3]+v[6])%3 != 0 {
			return
		}
		for _, legacy := range []uint32{2, 3} {
			emit(DVCase{N: 7, Cells: cells, BDV: true, Legacy: legacy, L: 0})
		}
	})
}
