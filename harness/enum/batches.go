// Package enum holds the bounded-exhaustive generators (batch families, drop
// vectors, call sequences).
package enum

import (
	"fmt"
	"sort"

	"verif/spec"
)

// BatchCase identifies one batch of a family by its generator parameters, so
// that replay files are self-contained.
type BatchCase struct {
	Fam   string `json:"fam"`
	N     int    `json:"n,omitempty"`
	Cells []int  `json:"cells,omitempty"` // per doc x field
	Comp  bool   `json:"comp,omitempty"`  // add a composite _all field
	Opt   int    `json:"opt,omitempty"`   // bit0 stored, bit1 dv on a, bit2 dv on b, bit3 _id last
	Card  int    `json:"card,omitempty"`  // boundary family
	Mode  uint32 `json:"mode"`            // chunk mode
}

var fieldNames = []string{"a", "b"}

func loc(pos int, ap ...uint64) spec.Loc {
	return spec.Loc{Pos: pos, Start: (pos - 1) * 2, End: (pos-1)*2 + 1, AP: ap}
}

// NumCells is the size of the per-(doc,field) cell menu.
const NumCells = 12

// ReducedCells is the reduced menu used for larger N.
var ReducedCells = []int{0, 1, 3, 5, 7, 11}

// cell returns the instances of field name for menu entry m.
func cell(name string, m int, opt int) []spec.Field {
	stored := opt&1 != 0
	dv := (name == "a" && opt&2 != 0) || (name == "b" && opt&4 != 0)
	mk := func(val string, length int, toks ...spec.Tok) spec.Field {
		return spec.Field{Name: name, Stored: stored, DV: dv, Value: []byte(val), Len: length, Toks: toks}
	}
	switch m {
	case 0:
		return nil
	case 1: // one term, no locations
		return []spec.Field{mk("x", 1, spec.Tok{Term: "x", Freq: 1})}
	case 2: // one term with location
		return []spec.Field{mk("x", 1, spec.Tok{Term: "x", Freq: 1, Locs: []spec.Loc{loc(1)}})}
	case 3: // frequency 2, array positions
		return []spec.Field{mk("x x", 2, spec.Tok{Term: "x", Freq: 2, Locs: []spec.Loc{loc(1, 1), loc(2, 2, 3)}})}
	case 4: // two terms
		return []spec.Field{mk("x y", 2,
			spec.Tok{Term: "x", Freq: 1, Locs: []spec.Loc{loc(1)}},
			spec.Tok{Term: "y", Freq: 1, Locs: []spec.Loc{loc(2)}})}
	case 5: // two instances sharing a term (array field)
		f1 := mk("x", 1, spec.Tok{Term: "x", Freq: 1, Locs: []spec.Loc{loc(1, 0)}})
		f1.AP = []uint64{0}
		f2 := mk("x y", 2,
			spec.Tok{Term: "x", Freq: 1, Locs: []spec.Loc{loc(1, 1)}},
			spec.Tok{Term: "y", Freq: 1})
		f2.AP = []uint64{1}
		return []spec.Field{f1, f2}
	case 6: // frequency 0 without locations
		return []spec.Field{mk("x", 1, spec.Tok{Term: "x", Freq: 0})}
	case 7: // frequency 0 with a location
		return []spec.Field{mk("x", 1, spec.Tok{Term: "x", Freq: 0, Locs: []spec.Loc{loc(1)}})}
	case 8: // empty term
		return []spec.Field{mk("", 1, spec.Tok{Term: "", Freq: 1, Locs: []spec.Loc{loc(1)}})}
	case 9: // non-ASCII term
		return []spec.Field{mk("é", 1, spec.Tok{Term: "é", Freq: 1})}
	case 10: // three terms, more locations than frequency says (composite-like)
		return []spec.Field{mk("x y z", 3,
			spec.Tok{Term: "x", Freq: 1, Locs: []spec.Loc{loc(1), loc(4)}},
			spec.Tok{Term: "y", Freq: 3, Locs: []spec.Loc{loc(2)}},
			spec.Tok{Term: "z", Freq: 1})}
	case 11: // values at the 1/2/3-byte varint boundaries (freq<<1, norm, location fields)
		return []spec.Field{mk("x", 128,
			spec.Tok{Term: "x", Freq: 64, Locs: []spec.Loc{{Pos: 128, Start: 127, End: 16384, AP: []uint64{128, 16383}}, {Pos: 16384, Start: 129, End: 255}}},
			spec.Tok{Term: "y", Freq: 8192})}
	}
	panic(fmt.Sprintf("bad cell %d", m))
}

// compositeOf builds the `_all` composite field of a document the way bleve
// does: token frequencies of all fields merged, locations naming their source.
func compositeOf(fields []spec.Field) spec.Field {
	cf := spec.Field{Name: "_all", Kind: spec.Composite}
	idx := map[string]int{}
	for _, f := range fields {
		if !f.IsText() || f.Name == "_id" {
			continue
		}
		cf.Len += f.Len
		for _, t := range f.Toks {
			i, ok := idx[t.Term]
			if !ok {
				i = len(cf.Toks)
				idx[t.Term] = i
				cf.Toks = append(cf.Toks, spec.Tok{Term: t.Term})
			}
			cf.Toks[i].Freq += t.Freq
			for _, l := range t.Locs {
				l2 := l
				l2.Field = f.Name
				cf.Toks[i].Locs = append(cf.Toks[i].Locs, l2)
			}
		}
	}
	return cf
}

// Batch materialises the case.
func (c BatchCase) Batch() spec.Batch {
	var b spec.Batch
	switch c.Fam {
	case "cells":
		for d := 0; d < c.N; d++ {
			doc := spec.Doc{ID: fmt.Sprintf("d%d", d), IDLast: c.Opt&8 != 0}
			for fi, fn := range fieldNames {
				doc.Fields = append(doc.Fields, cell(fn, c.Cells[d*len(fieldNames)+fi], c.Opt)...)
			}
			if c.Comp {
				doc.Composite = []spec.Field{compositeOf(doc.Fields)}
			}
			b.Docs = append(b.Docs, doc)
		}
	case "column":
		// one field; cells: 0 absent, 1 = x, 2 = x(2 locs)+y, 3 = two instances
		menu := []int{0, 1, 4, 5}
		for d := 0; d < c.N; d++ {
			doc := spec.Doc{ID: fmt.Sprintf("d%d", d)}
			doc.Fields = append(doc.Fields, cell("a", menu[c.Cells[d]], c.Opt)...)
			if c.Comp {
				doc.Composite = []spec.Field{compositeOf(doc.Fields)}
			}
			b.Docs = append(b.Docs, doc)
		}
	case "boundary":
		// N documents; term "x" in the first Card documents (freq = 1 + d%3, a
		// location in every other document), term "y" in every 7th document.
		for d := 0; d < c.N; d++ {
			doc := spec.Doc{ID: fmt.Sprintf("d%05d", d)}
			f := spec.Field{Name: "a", Len: 1 + d%5, DV: c.Opt&2 != 0, Stored: c.Opt&1 != 0, Value: []byte("v")}
			if d < c.Card {
				t := spec.Tok{Term: "x", Freq: 1 + d%3}
				if d%2 == 0 {
					t.Locs = []spec.Loc{loc(1 + d%4)}
				}
				f.Toks = append(f.Toks, t)
			}
			if d%7 == 0 {
				f.Toks = append(f.Toks, spec.Tok{Term: "y", Freq: 1, Locs: []spec.Loc{loc(2)}})
			}
			if d == c.N-1 {
				f.Toks = append(f.Toks, spec.Tok{Term: "z", Freq: 2})
			}
			doc.Fields = []spec.Field{f}
			b.Docs = append(b.Docs, doc)
		}
	case "multival":
		// N documents, each with Card values (instances) of field a; every value has the term
		// x (with a location) and one term of its own: the OCCURRENCES of x in the batch
		// (N*Card) cross 1024 while its hits (N) stay far below
		for d := 0; d < c.N; d++ {
			doc := spec.Doc{ID: fmt.Sprintf("m%03d", d)}
			for v := 0; v < c.Card; v++ {
				f := spec.Field{Name: "a", Len: 2, DV: c.Opt&2 != 0, AP: []uint64{uint64(v)},
					Toks: []spec.Tok{{Term: "x", Freq: 1, Locs: []spec.Loc{{Pos: 1, Start: 0, End: 1, AP: []uint64{uint64(v)}}}}, {Term: fmt.Sprintf("u%d", v%5), Freq: 1}}}
				doc.Fields = append(doc.Fields, f)
			}
			b.Docs = append(b.Docs, doc)
		}
	case "wide":
		// N fields in one document (field ids beyond one byte), a 300-byte and a 70000-byte
		// term, a stored value with 40 array positions
		d0 := spec.Doc{ID: "w0"}
		for f := 0; f < c.N; f++ {
			fl := spec.Field{Name: fmt.Sprintf("f%03d", f), Len: 1, DV: f%50 == 0, Stored: f%97 == 0, Value: []byte(fmt.Sprintf("v%d", f)),
				Toks: []spec.Tok{{Term: fmt.Sprintf("t%d", f%7), Freq: 1, Locs: []spec.Loc{{Pos: 1 + f, Start: f, End: f + 1}}}}}
			d0.Fields = append(d0.Fields, fl)
		}
		long1 := string(pseudoRandomLetters(300, 3))
		long2 := string(pseudoRandomLetters(70000, 5))
		aps := make([]uint64, 40)
		for i := range aps {
			aps[i] = uint64(i * i)
		}
		d1 := spec.Doc{ID: "w1", Fields: []spec.Field{
			{Name: fmt.Sprintf("f%03d", c.N/2), Len: 3, Stored: true, Value: []byte("forty"), AP: aps,
				Toks: []spec.Tok{{Term: long1, Freq: 2, Locs: []spec.Loc{{Pos: 1, Start: 0, End: 300, AP: aps[:9]}}}, {Term: long2, Freq: 1}, {Term: "t1", Freq: 1}}},
		}}
		b.Docs = []spec.Doc{d0, d1}
		if c.Comp {
			b.Docs[0].Composite = []spec.Field{compositeOf(d0.Fields)}
		}
	default:
		panic("unknown batch family " + c.Fam)
	}
	return b
}

func pseudoRandomLetters(n int, seed uint32) []byte {
	b := pseudoRandom(n, seed)
	for i := range b {
		b[i] = 'a' + b[i]%26
	}
	return b
}

// WideBatches enumerates the "wide" family.
func WideBatches(tier string, emit func(BatchCase)) {
	for _, n := range []int{255, 256, 257, 300} {
		for _, comp := range []bool{false, true} {
			for _, mode := range []uint32{1, 1026} {
				emit(BatchCase{Fam: "wide", N: n, Comp: comp, Mode: mode})
			}
		}
	}
}

// NonTrivial says whether the case exercises more than the trivial path: at
// least two postings or a multi-instance / composite merge.
func (c BatchCase) NonTrivial() bool {
	nz := 0
	for _, m := range c.Cells {
		if m != 0 {
			nz++
		}
	}
	return nz >= 2 || c.Fam == "boundary" || c.Fam == "wide" || c.Fam == "multival"
}

func (c BatchCase) Key() string {
	return fmt.Sprintf("%s/%d/%v/%v/%d/%d/%d", c.Fam, c.N, c.Cells, c.Comp, c.Opt, c.Card, c.Mode)
}

// Product calls f with every vector of length n over [0,k).
func Product(n, k int, f func(v []int)) {
	v := make([]int, n)
	var rec func(i int)
	rec = func(i int) {
		if i == n {
			f(append([]int(nil), v...))
			return
		}
		for x := 0; x < k; x++ {
			v[i] = x
			rec(i + 1)
		}
	}
	rec(0)
}

// ProductOf calls f with every vector of length n over the given menu.
func ProductOf(n int, menu []int, f func(v []int)) {
	Product(n, len(menu), func(v []int) {
		out := make([]int, n)
		for i, x := range v {
			out[i] = menu[x]
		}
		f(out)
	})
}

// ChunkModesSmall are the chunk modes that put chunk boundaries inside tiny batches
// plus the three rule classes.
var ChunkModesSmall = []uint32{1, 2, 3, 1024, 1025, 1026}

// CellBatches enumerates the "cells" family.
func CellBatches(tier string, emit func(BatchCase)) {
	nf := len(fieldNames)
	full := make([]int, NumCells)
	for i := range full {
		full[i] = i
	}
	// N = 0
	for _, mode := range ChunkModesSmall {
		emit(BatchCase{Fam: "cells", N: 0, Mode: mode})
	}
	// N = 1: full menu, all option bits
	for opt := 0; opt < 16; opt++ {
		for _, comp := range []bool{false, true} {
			ProductOf(nf, full, func(v []int) {
				for _, mode := range []uint32{1, 1025, 1026} {
					emit(BatchCase{Fam: "cells", N: 1, Cells: v, Comp: comp, Opt: opt, Mode: mode})
				}
			})
		}
	}
	// N = 2
	menu2 := full
	for _, comp := range []bool{false, true} {
		ProductOf(2*nf, menu2, func(v []int) {
			modes := ChunkModesSmall
			if tier == "quick" {
				modes = []uint32{1, 2, 1026}
			}
			for _, mode := range modes {
				emit(BatchCase{Fam: "cells", N: 2, Cells: v, Comp: comp, Opt: 0, Mode: mode})
			}
		})
	}
	// N = 3
	menu3 := []int{0, 1, 3, 5, 7, 8, 10, 11}
	if tier == "quick" {
		menu3 = ReducedCells
	}
	for _, comp := range []bool{false, true} {
		ProductOf(3*nf, menu3, func(v []int) {
			modes := []uint32{1, 2, 3, 1025}
			if tier == "quick" {
				modes = []uint32{2}
			}
			for _, mode := range modes {
				emit(BatchCase{Fam: "cells", N: 3, Cells: v, Comp: comp, Opt: 7, Mode: mode})
			}
		})
	}
}

// ColumnBatches enumerates the "column" family (one field, N documents).
func ColumnBatches(tier string, emit func(BatchCase)) {
	maxN := 8
	if tier == "quick" {
		maxN = 6
	}
	for n := 4; n <= maxN; n++ {
		Product(n, 4, func(v []int) {
			modes := []uint32{1, 2, 3, 1024}
			if tier == "quick" || n >= 7 {
				modes = []uint32{2, 3}
			}
			for _, mode := range modes {
				emit(BatchCase{Fam: "column", N: n, Cells: v, Comp: n%2 == 0, Opt: 3, Mode: mode})
			}
		})
	}
}

// MultiValBatches: few documents with hundreds of values of one field (see "multival").
func MultiValBatches(tier string, emit func(BatchCase)) {
	for _, nc := range [][2]int{{4, 256}, {2, 520}, {3, 342}, {4, 255}, {1, 1024}, {1, 1023}} {
		for _, mode := range []uint32{1026, 1025, 1024} {
			emit(BatchCase{Fam: "multival", N: nc[0], Card: nc[1], Opt: 2, Mode: mode})
		}
	}
}

// BoundaryBatches enumerates the cardinality / chunk-size rule boundaries.
func BoundaryBatches(tier string, emit func(BatchCase)) {
	ns := []int{1024, 1025, 2047, 2048, 2049, 3000}
	for _, n := range ns {
		cards := map[int]bool{1: true, 1023: true, 1024: true, 1025: true, n: true}
		var cl []int
		for c := range cards {
			if c <= n {
				cl = append(cl, c)
			}
		}
		sort.Ints(cl)
		for _, card := range cl {
			modes := []uint32{1024, 1025, 1026}
			if tier == "thorough" {
				modes = []uint32{512, 1000, 1024, 1025, 1026}
			}
			for _, mode := range modes {
				emit(BatchCase{Fam: "boundary", N: n, Card: card, Opt: 3, Mode: mode})
			}
		}
	}
}
