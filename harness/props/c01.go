package props

import (
	"fmt"

	"verif/dump"
	"verif/enum"
	"verif/ref"
	"verif/run"
	"verif/spec"
	"verif/zx"
)

var batchAssumptions = []string{
	"inputs are generated inside the stated finite alphabets only (see DESIGN.md 2.4): every document has one stored _id field, indexing options are uniform per field name inside a batch, locations name fields of the batch (an analysed length of 0 next to tokens is covered by one merge-menu segment only)",
	"Go map iteration order inside zapx is runtime-random and cannot be enumerated; all oracles are semantic so every order must pass",
}

func plainAndVec(string) []string { return []string{"plain", "vec"} }

// genBatches enumerates the batch families shared by C01..C04.
func genBatches(tier string, emit func(enum.BatchCase)) {
	enum.CellBatches(tier, emit)
	enum.ColumnBatches(tier, emit)
	enum.BoundaryBatches(tier, emit)
	enum.WideBatches(tier, emit)
	enum.MultiValBatches(tier, emit)
}

func batchMsg(c enum.BatchCase, diff string) string {
	return fmt.Sprintf("%s\nchunk mode %d, batch %s", diff, c.Mode, jsonStr(c.Batch()))
}

func init() {
	run.Register(&run.Def{
		ID:          "C01",
		Level:       "exploration",
		Rule:        "bounded-exhaustive batches: every assignment of a 12-entry cell menu (absent, 1 term, with location, freq 2 + array positions, 2 terms, two same-named instances sharing a term, freq 0 without/with location, empty term, UTF-8 term, more locations than freq, frequencies / length / location values at the varint boundaries 127/128/16383/16384) to (document, field) for N<=2 (reduced menu for N=3), x composite _all on/off x chunk modes {1,2,3,1024,1025,1026}; a one-field 'column' family for N=4..7 (4 cells per document); a chunk-rule boundary family N in {1024,1025,2047,2048,2049,3000} x cardinality in {1,1023,1024,1025,N}; a 'wide' family (255..300 fields in one document, a 300-byte and a 70000-byte term, 40 array positions); both build tags. Oracle: full dump of every field/term of the universe (incl. absent) via Dictionary->PostingsList->Iterator(true,true,true) == reference model. Non-trivial = batch with >= 2 non-empty cells.",
		Assumptions: batchAssumptions,
		Bounds:      map[string]string{"quick": "N<=2 full 12-entry menu x 3 chunk modes, N=3 6-entry menu x 1 chunk mode, columns N<=6, boundary family, multi-valued family (occurrences of a term cross 1024 with 1-4 hits); tags default+vectors", "thorough": "N<=2 full menu x 6 chunk modes, N=3 7-entry menu x 4 chunk modes, columns N<=8, boundary family with 5 chunk modes; tags default+vectors"},
		Flavours:    plainAndVec,
		New:         func() interface{} { return &enum.BatchCase{} },
		Gen: func(tier string, emit func(interface{})) {
			genBatches(tier, func(c enum.BatchCase) { emit(c) })
			if run.Flavour == "plain" {
				// one document with 65534 / 65535 fields next to _id (field ids are 16 bits wide)
				emit(enum.BatchCase{Fam: "manyfields", N: 65534, Mode: 1026})
				emit(enum.BatchCase{Fam: "manyfields", N: 65535, Mode: 1026})
			}
		},
		Run: func(ci interface{}, a *run.Acc) {
			c := *ci.(*enum.BatchCase)
			if c.Fam == "manyfields" {
				runManyFields(c, a)
				return
			}
			b := c.Batch()
			exp := ref.FromBatch(b)
			seg, _, err := zx.Build(b, c.Mode)
			if err != nil {
				a.Violation("build-error", batchMsg(c, "New returned error: "+err.Error()))
				return
			}
			defer seg.Close()
			got, err := dump.Segment(seg, dump.UniverseOf(exp))
			a.Eval(1)
			if c.NonTrivial() {
				a.NonTrivial(c.Key())
			}
			if err != nil {
				a.Violation("read-error", batchMsg(c, err.Error()))
				return
			}
			sec := ref.Sections{Meta: true, Postings: true}
			if d := zx.Compare(exp, got, sec); d != "" {
				a.Violation("postings-mismatch", batchMsg(c, d))
				a.Outcome("mismatch")
				return
			}
			a.Outcome(fmt.Sprintf("ok/terms=%d", countTerms(exp)))
		},
	})
}

// runManyFields: one document with N fields f000001..fN (term x each) next to _id. A full
// dump would probe 65536 dictionaries with the whole term universe; the oracle here looks at
// the first, a middle and the last three fields only. With N = 65535 the last field gets id
// 65535, which the builder also uses as its "end of document" marker: KNOWN FINDING.
func runManyFields(c enum.BatchCase, a *run.Acc) {
	doc := spec.Doc{ID: "many"}
	for i := 1; i <= c.N; i++ {
		doc.Fields = append(doc.Fields, spec.Field{Name: fmt.Sprintf("f%06d", i), Len: 1, Toks: []spec.Tok{{Term: "x", Freq: 1}}})
	}
	seg, _, err := zx.Build(spec.Batch{Docs: []spec.Doc{doc}}, c.Mode)
	if err != nil {
		a.Violation("build-error", fmt.Sprintf("one document with %d fields: %v", c.N, err))
		return
	}
	defer seg.Close()
	a.NonTrivial(c.Key() + fmt.Sprint(c.N))
	a.Eval(1)
	if n := len(seg.Fields()); n != c.N+1 {
		a.Violation("postings-mismatch", fmt.Sprintf("one document with %d fields + _id: Fields() has %d entries", c.N, n))
		return
	}
	for _, i := range []int{1, 2, c.N / 2, c.N - 2, c.N - 1, c.N} {
		name := fmt.Sprintf("f%06d", i)
		dict, err := seg.Dictionary(name)
		if err != nil {
			a.Violation("read-error", err.Error())
			return
		}
		pl, err := dict.PostingsList([]byte("x"), nil, nil)
		if err != nil {
			a.Violation("read-error", err.Error())
			return
		}
		if pl.Count() != 1 {
			sig := "postings-mismatch"
			if i == c.N && c.N == 65535 {
				sig = "field-number-65535-loses-its-postings"
			}
			a.Violation(sig, fmt.Sprintf("one document with %d fields + _id: term x of field %s (field number %d) has %d hits, want 1", c.N, name, i, pl.Count()))
			return
		}
	}
	a.Outcome("ok/manyfields")
}

func countTerms(c *ref.Content) int {
	n := 0
	for _, t := range c.Postings {
		n += len(t)
	}
	if n > 6 {
		n = 6
	}
	return n
}
