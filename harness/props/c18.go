package props

import (
	"bytes"
	"fmt"
	"os"

	segment "github.com/blevesearch/scorch_segment_api/v2"

	"verif/enum"
	"verif/run"
	"verif/shim/vsync"
	"verif/spec"
	"verif/zx"
)

// CancelCase: one merge input and a residue class of closing points.
type CancelCase struct {
	Input int `json:"input"`
	Shard int `json:"shard"`
	Of    int `json:"of"`
	Perm  int `json:"perm,omitempty"` // instrumented flavours: order of the sections (see vsync.MapPerm)
}

func cancelInputs() []faultInput {
	tm := enum.TextMenu()
	rv := append([]faultInput{}, faultMergeInputs()...)
	rv = append(rv, faultInput{"multi-field / multi-term / doc-value merge", []spec.Batch{tm[6], tm[2], tm[4]}, [][]int{{1}, nil, {0}}})
	rv = append(rv, vecCancelInputs()...)
	return rv
}

// allCancelInputs: the quick inputs followed by the thorough tier's extension (every
// ordered pair of text / synonym menu items, see extMergeInputs).
func allCancelInputs() []faultInput { return append(cancelInputs(), extMergeInputs()...) }

// stepReporter calls fn at every observable write step of the merge.
type stepReporter struct {
	n  int
	fn func(step int)
}

func (s *stepReporter) ReportBytesWritten(uint64) {
	s.n++
	if s.fn != nil {
		s.fn(s.n)
	}
}

func runC18(ci interface{}, a *run.Acc) {
	c := *ci.(*CancelCase)
	ins := allCancelInputs()
	if c.Input >= len(ins) {
		return
	}
	in := ins[c.Input]
	vsync.MapPerm = c.Perm
	defer func() { vsync.MapPerm = 0 }()
	prepareVecBatch(nil)
	env, err := newFaultEnv(in)
	defer env.done()
	if err != nil {
		a.Violation("setup-error", err.Error())
		return
	}
	fail := func(kind, msg string) {
		a.Violation(kind, fmt.Sprintf("input %q: %s", in.name, msg))
	}
	// one merge with the channel closed by closeAt(step) (step counts write steps and
	// engine calls in order); closeAt == nil: never closed
	preExisting := false
	merge := func(pre bool, closeAtStep int) (steps int, maps [][]uint64, size uint64, path string, err error) {
		ch := make(chan struct{})
		closed := false
		cl := func() {
			if !closed {
				closed = true
				close(ch)
			}
		}
		if pre {
			cl()
		}
		total := 0
		obs := func() {
			total++
			if total == closeAtStep {
				cl()
			}
		}
		rep := &stepReporter{fn: func(int) { obs() }}
		unhook := hookEngine(func() { obs() })
		defer unhook()
		path = zx.TempPath("c18")
		if preExisting {
			// an older, longer file already sits at the destination
			os.WriteFile(path, bytes.Repeat([]byte{0x5a}, 8192), 0600)
		}
		defer func() {
			if r := recover(); r != nil {
				err = fmt.Errorf("panic in Merge: %v", r)
			}
		}()
		maps, size, err = zx.Plugin.Merge(env.segs, env.bms, path, ch, rep)
		return total, maps, size, path, err
	}
	check := func(desc string, maps [][]uint64, size uint64, path string, err error, mustAbort bool) bool {
		a.Eval(1)
		_, statErr := os.Stat(path)
		defer zx.Remove(path)
		if live := engineLive(); live != 0 {
			fail("engine-leak", fmt.Sprintf("%s: %d native engine objects still alive after Merge returned", desc, live))
			return false
		}
		if m := engineMisuse(); m != "" {
			fail("engine-misuse", desc+": "+m)
			return false
		}
		if err == nil {
			if mustAbort {
				fail("not-aborted", desc+": Merge reported success although the channel was closed before the call")
				return false
			}
			if m := checkComplete(path, env.exp, 1026); m != "" {
				fail("partial-success", desc+": "+m)
				return false
			}
			if m := zx.CheckMaps(env.expMaps, maps); m != "" {
				fail("maps", desc+": "+m)
				return false
			}
			if vm := vecMergeOracleFile(path, env.exp); vm != "" {
				fail("partial-success", desc+": "+vm)
				return false
			}
			a.Outcome("completed")
			return true
		}
		if err != segment.ErrClosed {
			fail("wrong-error", fmt.Sprintf("%s: Merge returned %q, want the closed error or success", desc, err))
			return false
		}
		if statErr == nil {
			fail("file-left", desc+": Merge returned the closed error but left a file at the path")
			return false
		}
		if m := env.refsLeaked(); m != "" {
			fail("input-reference-leaked", desc+": "+m)
			return false
		}
		a.Outcome("aborted")
		return true
	}
	// fault-free run: counts the observable steps
	steps, maps, size, path, err := merge(false, 0)
	if err != nil {
		fail("nofault", "uncancelled merge failed: "+err.Error())
		return
	}
	if c.Shard == 0 {
		if !check("channel never closed", maps, size, path, err, false) {
			return
		}
		_, maps, size, path, err = merge(true, 0)
		if !check("channel closed before the call", maps, size, path, err, true) {
			return
		}
	} else {
		zx.Remove(path)
	}
	for _, preExisting = range []bool{false, true} {
		what := ""
		if preExisting {
			what = " (destination path holds an older file)"
			if c.Shard == 0 {
				_, maps, size, path, err = merge(true, 0)
				if !check("channel closed before the call"+what, maps, size, path, err, true) {
					return
				}
			}
		}
		for j := 1 + c.Shard; j <= steps; j += c.Of {
			_, maps, size, path, err := merge(false, j)
			a.NonTrivial(fmt.Sprintf("%d/%d/%v", c.Input, j, preExisting))
			if !check(fmt.Sprintf("channel closed inside observable step %d of %d%s", j, steps, what), maps, size, path, err, false) {
				return
			}
		}
	}
	preExisting = false
	a.Count("steps."+in.name, steps/c.Of)
}

func init() {
	run.Register(&run.Def{
		ID:          "C18",
		Level:       "fault_enumeration",
		Rule:        "deviation enumeration of the cancellation point on the real Merge: the merge goroutine observes the close channel only at its polls, and between two harness-observable steps (a write reaching the StatsReporter passed to Merge, or a call into the vector-engine stand-in) it only does in-memory work that is discarded on abort, so closing at any real time is equivalent to closing right after the preceding observable step. For each input (the 6 text/synonym merges of C17, a 3-segment multi-field/doc-value merge; under the vectors tag 3 vector merges): the fault-free run is recorded (S observable steps), then one merge per closing point: closed before the call; closed inside step j for EVERY j in 1..S; never closed; and all of these again with an older, longer file already at the destination path. The order in which Merge runs its sections is a Go-map order: the plain flavours take whatever the runtime picks, and the instrumented flavours (range over package-level maps made deterministic at build time) repeat the whole enumeration under EVERY order of the sections (2 orders by default, 6 under the vectors tag). Oracle: pre-closed -> the closed error and no file; otherwise either success with a complete, correct file (footer, CRC, re-open, content == reference, renumbering maps) or the closed error with no file; never another error, never a file left behind on error, never success for an incomplete file; engine live-object count 0 afterwards; every second input is an mmap-opened segment whose reference count must be what it was before the call. Non-trivial = one (input, closing step).",
		Assumptions: []string{"equivalence argument above: cancellation is only observed at polls executed by the merge goroutine itself", "vector merges use the stand-in engine (DESIGN 3.4)"},
		Bounds:      map[string]string{"quick": "every closing point of every input, both build tags, random section order + every section order", "thorough": "the quick inputs plus 239 more merges (every ordered pair of text menu items without and with deletions, every ordered pair of synonym menu items): every closing point, every section order"},
		Flavours:    func(string) []string { return []string{"plain", "vec", "inst", "instvec"} },
		New:         func() interface{} { return &CancelCase{} },
		Gen: func(tier string, emit func(interface{})) {
			const of = 8
			n, perms := len(cancelInputs()), 1
			if tier == "thorough" {
				n = len(allCancelInputs())
			}
			switch run.Flavour {
			case "inst":
				perms = 2 // two sections: both orders
			case "instvec":
				perms = 6 // three sections: all six orders
			}
			for perm := 0; perm < perms; perm++ {
				for i := 0; i < n; i++ {
					for s := 0; s < of; s++ {
						emit(CancelCase{Input: i, Shard: s, Of: of, Perm: perm})
					}
				}
			}
		},
		Run: runC18,
	})
}
