//go:build vectors

package props

import (
	"fmt"
	"math/rand"
	"runtime"
	"sort"
	"strings"
	"time"

	"github.com/RoaringBitmap/roaring/v2"
	faiss "github.com/blevesearch/go-faiss"
	segment "github.com/blevesearch/scorch_segment_api/v2"

	"verif/enum"
	"verif/ref"
	"verif/spec"
	"verif/zx"
)

func prepareVec(c enum.AnyBatch) {
	if c.Vec != nil {
		rand.Seed(12345)
	}
}

type pair struct {
	Doc   uint64
	Score float32
}

func metricOf(name string) int {
	if name == "l2_norm" {
		return faiss.MetricL2
	}
	return faiss.MetricInnerProduct
}

func better(metric int, a, b float32) bool {
	if metric == faiss.MetricL2 {
		return a < b
	}
	return a > b
}

// vecQuery describes one search.
type vecQuery struct {
	Field     string
	Q         []float32
	K         int64
	Except    []uint32 // nil = no bitmap
	Filtered  bool     // use SearchWithFilter
	Eligible  []uint64
	ReqFilter bool
}

func (q vecQuery) String() string {
	return fmt.Sprintf("field=%q q=%v k=%d except=%v filtered=%v eligible=%v requiresFiltering=%v", q.Field, q.Q, q.K, q.Except, q.Filtered, q.Eligible, q.ReqFilter)
}

func bitmapOf(ds []uint32) *roaring.Bitmap {
	if ds == nil {
		return nil
	}
	bm := roaring.New()
	for _, d := range ds {
		bm.Add(d)
	}
	return bm
}

// runSearch executes q on an already interpreted index handle.
func runSearch(vi segment.VectorIndex, q vecQuery) ([]pair, error) {
	var pl segment.VecPostingsList
	var err error
	if q.Filtered {
		pl, err = vi.SearchWithFilter(q.Q, q.K, q.Eligible, nil)
	} else {
		pl, err = vi.Search(q.Q, q.K, nil)
	}
	if err != nil {
		return nil, err
	}
	var rv []pair
	it := pl.Iterator(nil)
	for {
		p, err := it.Next()
		if err != nil {
			return nil, err
		}
		if p == nil {
			break
		}
		rv = append(rv, pair{p.Number(), p.Score()})
	}
	if uint64(len(rv)) != pl.Count() {
		return nil, fmt.Errorf("VecPostingsList.Count()=%d but %d postings iterated", pl.Count(), len(rv))
	}
	return rv, nil
}

// search interprets, searches and closes.
func search(seg segment.Segment, q vecQuery) ([]pair, error) {
	vs, ok := seg.(segment.VectorSegment)
	if !ok {
		return nil, fmt.Errorf("%T is not a VectorSegment", seg)
	}
	vi, err := vs.InterpretVectorIndex(q.Field, q.ReqFilter, bitmapOf(q.Except))
	if err != nil {
		return nil, fmt.Errorf("InterpretVectorIndex: %v", err)
	}
	defer vi.Close()
	return runSearch(vi, q)
}

// everyVectorPresent is the completeness oracle for the clustered class (>= 1000
// vectors), whose unfiltered answers are approximate by design: a filtered search whose
// only eligible document is d, with k = the number of d's vectors, must return exactly
// d's vectors (the library keeps probing eligible clusters until k eligible hits are
// found), whatever the metric. One handle, one search per document with vectors.
func everyVectorPresent(seg segment.Segment, exp *ref.Content, field string) string {
	vf := exp.Vecs[field]
	if vf == nil || len(vf.Vecs) == 0 {
		return ""
	}
	vs, ok := seg.(segment.VectorSegment)
	if !ok {
		return fmt.Sprintf("%T is not a VectorSegment", seg)
	}
	vi, err := vs.InterpretVectorIndex(field, true, nil)
	if err != nil {
		return fmt.Sprintf("InterpretVectorIndex: %v", err)
	}
	defer vi.Close()
	first := map[uint32][]float32{}
	count := map[uint32]int64{}
	var docs []uint32
	for _, v := range vf.Vecs {
		if count[v.Doc] == 0 {
			first[v.Doc] = v.Vec
			docs = append(docs, v.Doc)
		}
		count[v.Doc]++
	}
	for _, d := range docs {
		q := vecQuery{Field: field, Q: first[d], K: count[d], Filtered: true, ReqFilter: true, Eligible: []uint64{uint64(d)}}
		got, err := runSearch(vi, q)
		if err != nil {
			return fmt.Sprintf("search restricted to document %d: %v", d, err)
		}
		if m := checkResult(exp, q, got, true); m != "" {
			return fmt.Sprintf("search restricted to document %d (k = its %d vectors): %s", d, count[d], m)
		}
	}
	return ""
}

// checkResult is the C14 oracle. exact=false checks soundness only.
func checkResult(exp *ref.Content, q vecQuery, got []pair, exact bool) string {
	vf := exp.Vecs[q.Field]
	if vf == nil || vf.Dims != len(q.Q) {
		if len(got) != 0 {
			return fmt.Sprintf("expected no results (no vectors / wrong dimension), got %v", got)
		}
		return ""
	}
	metric := metricOf(vf.Metric)
	ex := map[uint32]bool{}
	for _, d := range q.Except {
		ex[d] = true
	}
	var el map[uint64]bool
	if q.Filtered {
		el = map[uint64]bool{}
		for _, d := range q.Eligible {
			el[d] = true
		}
	}
	type cand struct {
		p pair
	}
	var cands []pair
	for _, v := range vf.Vecs {
		if ex[v.Doc] {
			continue
		}
		if el != nil && !el[uint64(v.Doc)] {
			continue
		}
		cands = append(cands, pair{uint64(v.Doc), faiss.Distance(metric, q.Q, v.Vec)})
	}
	sort.SliceStable(cands, func(i, j int) bool { return better(metric, cands[i].Score, cands[j].Score) })
	mult := map[pair]int{}
	for _, c := range cands {
		mult[c]++
	}
	seen := map[pair]bool{}
	for _, g := range got {
		if seen[g] {
			return fmt.Sprintf("pair %v returned twice", g)
		}
		seen[g] = true
		if mult[g] == 0 {
			why := "is not the score of any of that document's vectors"
			if ex[uint32(g.Doc)] {
				why = "names a document in the exclusion bitmap"
			} else if el != nil && !el[g.Doc] {
				why = "names a document that is not eligible"
			}
			return fmt.Sprintf("returned pair (doc %d, score %v) %s", g.Doc, g.Score, why)
		}
	}
	if int64(len(got)) > q.K {
		return fmt.Sprintf("%d pairs returned for k=%d", len(got), q.K)
	}
	if !exact {
		return ""
	}
	K := int(q.K)
	if K > len(cands) {
		K = len(cands)
	}
	if K == 0 {
		if len(got) != 0 {
			return fmt.Sprintf("expected no results, got %v", got)
		}
		return ""
	}
	kth := cands[K-1].Score
	nBetter := 0
	for _, c := range cands {
		if better(metric, c.Score, kth) {
			nBetter++
			if !seen[c] {
				return fmt.Sprintf("missing pair (doc %d, score %v), which is strictly better than the k-th best score %v; got %v", c.Doc, c.Score, kth, got)
			}
		}
	}
	t := K - nBetter
	nTie, maxTie := 0, 0
	for g := range seen {
		if better(metric, g.Score, kth) {
			continue
		}
		if g.Score != kth {
			return fmt.Sprintf("returned pair (doc %d, score %v) is worse than the k-th best score %v; got %v", g.Doc, g.Score, kth, got)
		}
		nTie++
		maxTie += mult[g]
	}
	if nTie > t || maxTie < t {
		return fmt.Sprintf("%d candidates survive, k=%d: expected exactly %d vectors at the k-th best score %v besides %d strictly better ones, but the result has %d pairs at that score covering at most %d vectors; got %v",
			len(cands), q.K, t, kth, nBetter, nTie, maxTie, got)
	}
	return ""
}

// subsets32 returns every subset of {0..n-1} as sorted slices; the empty subset is
// returned as nil first and (if withEmptyBitmap) again as an empty non-nil slice.
func subsets32(n int) [][]uint32 {
	var rv [][]uint32
	for mask := 0; mask < 1<<uint(n); mask++ {
		var s []uint32
		if mask != 0 {
			s = []uint32{}
		}
		for d := 0; d < n; d++ {
			if mask&(1<<uint(d)) != 0 {
				s = append(s, uint32(d))
			}
		}
		rv = append(rv, s)
	}
	return rv
}

func subsets64(n int) [][]uint64 {
	var rv [][]uint64
	for mask := 0; mask < 1<<uint(n); mask++ {
		s := []uint64{}
		for d := 0; d < n; d++ {
			if mask&(1<<uint(d)) != 0 {
				s = append(s, uint64(d))
			}
		}
		rv = append(rv, s)
	}
	return rv
}

type fieldStats struct{ m map[string]map[string]uint64 }

func (f *fieldStats) Store(stat, field string, v uint64) {
	if f.m == nil {
		f.m = map[string]map[string]uint64{}
	}
	if f.m[stat] == nil {
		f.m[stat] = map[string]uint64{}
	}
	f.m[stat][field] = v
}
func (f *fieldStats) Aggregate(segment.FieldStats)        {}
func (f *fieldStats) Fetch() map[string]map[string]uint64 { return f.m }

// checkStats compares the per-field vector count statistic.
func checkStats(seg segment.Segment, exp *ref.Content) string {
	fr, ok := seg.(segment.FieldStatsReporter)
	if !ok {
		return fmt.Sprintf("%T is not a FieldStatsReporter", seg)
	}
	st := &fieldStats{}
	fr.UpdateFieldStats(st)
	got := st.m["num_vectors"]
	for f, vf := range exp.Vecs {
		if got[f] != uint64(len(vf.Vecs)) {
			return fmt.Sprintf("num_vectors[%q] = %d, want %d", f, got[f], len(vf.Vecs))
		}
	}
	for f, n := range got {
		if exp.Vecs[f] == nil && n != 0 {
			return fmt.Sprintf("num_vectors[%q] = %d for a field without vectors", f, n)
		}
	}
	return ""
}

var gridQueries = append(append([][]float32{}, enum.Grid...), []float32{1, 2, 3}, []float32{0, 1, 0})

// vecExtra is the light vector oracle used by C04 (unfiltered searches, nil and
// one-document exclusion) on the in-memory and the re-opened segment.
func vecExtra(exp *ref.Content) func(string, segment.Segment) string {
	if len(exp.Vecs) == 0 {
		return nil
	}
	return func(name string, seg segment.Segment) string {
		if m := checkStats(seg, exp); m != "" {
			return name + ": " + m
		}
		for _, field := range []string{"v", "w", "f", "zz"} {
			for _, qv := range gridQueries {
				for _, k := range []int64{1, 3, 10} {
					q := vecQuery{Field: field, Q: qv, K: k}
					got, err := search(seg, q)
					if err != nil {
						return fmt.Sprintf("%s: %s: error %v", name, q, err)
					}
					if m := checkResult(exp, q, got, true); m != "" {
						return fmt.Sprintf("%s: %s: %s", name, q, m)
					}
				}
			}
		}
		return ""
	}
}

func prepareVecBatch(b interface{}) { rand.Seed(12345) }

// vecMergeOracle: searches on the merged segment == reference over the survivors.
func vecMergeOracle(seg segment.Segment, exp *ref.Content) string {
	if m := checkStats(seg, exp); m != "" {
		return m
	}
	for _, field := range []string{"v", "w", "f"} {
		// >= 1000 vectors: clustered class, approximate by design -> soundness only
		exact := exp.Vecs[field] == nil || len(exp.Vecs[field].Vecs) < 1000
		for _, qv := range gridQueries {
			for _, k := range []int64{1, 10} {
				q := vecQuery{Field: field, Q: qv, K: k}
				got, err := search(seg, q)
				if err != nil {
					return fmt.Sprintf("%s: error %v", q, err)
				}
				if m := checkResult(exp, q, got, exact); m != "" {
					return fmt.Sprintf("%s: %s", q, m)
				}
			}
		}
		if !exact {
			if m := everyVectorPresent(seg, exp, field); m != "" {
				return fmt.Sprintf("field %q: %s", field, m)
			}
		}
	}
	return ""
}

func vecCancelInputs() []faultInput {
	vm := enum.VecMenu()
	return []faultInput{
		{"vector merge of two segments", []spec.Batch{vm[0], vm[1]}, [][]int{nil, nil}},
		{"vector merge with deletions", []spec.Batch{vm[1], vm[0], vm[2]}, [][]int{{0}, {1}, nil}},
		{"vector merge, all vectors of one input deleted", []spec.Batch{vm[0], vm[3], vm[1]}, [][]int{{0, 1}, nil, nil}},
	}
}

// hookEngine makes f run at every call into the engine stand-in.
func hookEngine(f func()) func() {
	faiss.Ctl.Reset()
	faiss.Ctl.Hook = func(op string, n int) {
		if op != "Close" {
			f()
		}
	}
	return func() { faiss.Ctl.Hook = nil }
}

// engineLive returns the number of live native objects once asynchronous closes
// (the cache closes indexes in a goroutine of its own) have had time to finish:
// it waits until the count is 0 or 5 s have passed. A non-zero count after that
// is a leak, not a timing artefact.
func engineLive() int {
	deadline := time.Now().Add(5 * time.Second)
	for {
		n := faiss.Ctl.LiveCount()
		if n == 0 || time.Now().After(deadline) {
			return n
		}
		runtime.Gosched()
		time.Sleep(50 * time.Microsecond)
	}
}

// engineMisuse returns (and clears) double frees / uses after free of native objects
// recorded by the engine stand-in since the last call; "" if there were none.
func engineMisuse() string {
	if m := faiss.Ctl.TakeMisuse(); len(m) > 0 {
		return strings.Join(m, "; ")
	}
	return ""
}

func vecMergeOracleFile(path string, exp *ref.Content) string {
	if len(exp.Vecs) == 0 {
		return ""
	}
	o, err := zx.Plugin.Open(path)
	if err != nil {
		return err.Error()
	}
	defer o.Close()
	return vecMergeOracle(o, exp)
}

func memCloseVictim() (spec.Batch, func(segment.Segment, *ref.Content) string) {
	b := enum.VecCase{Docs: []int{2, 6, 4}, Metric: "l2_norm"}.Batch()
	return b, func(s segment.Segment, exp *ref.Content) string {
		// load the vector index into the cache and leave it there (handle closed)
		q := vecQuery{Field: "v", Q: []float32{0, 0}, K: 2}
		got, err := search(s, q)
		if err != nil {
			return err.Error()
		}
		return checkResult(exp, q, got, true)
	}
}

func vecBuildMenu() []spec.Batch {
	return []spec.Batch{
		enum.VecCase{Docs: []int{2, 6, 0, 4}, Metric: "l2_norm"}.Batch(),
		enum.VecCase{Docs: []int{1, 3}, Metric: "dot_product", Two: true}.Batch(),
	}
}

func vecBuildOracle(seg segment.Segment, exp *ref.Content) string {
	if m := checkStats(seg, exp); m != "" {
		return m
	}
	if len(exp.Vecs) == 0 {
		// no trace of an earlier vector batch
		for _, f := range []string{"v", "w"} {
			got, err := search(seg, vecQuery{Field: f, Q: []float32{0, 0}, K: 3})
			if err != nil || len(got) != 0 {
				return fmt.Sprintf("search on field %q of a batch without vectors: %v %v", f, got, err)
			}
		}
		return ""
	}
	return vecMergeOracle(seg, exp)
}

func refVecDocs() []spec.Doc {
	return enum.VecCase{Docs: []int{2, 6}, Metric: "l2_norm"}.Batch().Docs
}
