//go:build !vectors

package props

import (
	segment "github.com/blevesearch/scorch_segment_api/v2"

	"verif/enum"
	"verif/ref"
)

func prepareVec(enum.AnyBatch) {}

func vecExtra(*ref.Content) func(string, segment.Segment) string { return nil }

func prepareVecBatch(b interface{}) {}

func vecMergeOracle(seg segment.Segment, exp *ref.Content) string { return "" }

func vecCancelInputs() []faultInput { return nil }

func hookEngine(f func()) func() { return func() {} }

func engineLive() int { return 0 }

func vecMergeOracleFile(path string, exp *ref.Content) string { return "" }
