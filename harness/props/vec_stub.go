//go:build !vectors

package props

import (
	segment "github.com/blevesearch/scorch_segment_api/v2"

	"verif/enum"
	"verif/ref"
	"verif/spec"
)

func prepareVec(enum.AnyBatch) {}

func vecExtra(*ref.Content) func(string, segment.Segment) string { return nil }

func prepareVecBatch(b interface{}) {}

func vecMergeOracle(seg segment.Segment, exp *ref.Content) string { return "" }

func vecCancelInputs() []faultInput { return nil }

func hookEngine(f func()) func() { return func() {} }

func engineLive() int { return 0 }

func vecMergeOracleFile(path string, exp *ref.Content) string { return "" }

// memCloseVictim returns the batch of the in-memory segment that is closed and a
// function that exercises its caches first.
func memCloseVictim() (spec.Batch, func(segment.Segment, *ref.Content) string) {
	return enum.SynMenu()[3], func(s segment.Segment, exp *ref.Content) string {
		// fill the synonym cache
		ts := s.(segment.ThesaurusSegment)
		for name := range exp.Thes {
			if _, err := ts.Thesaurus(name); err != nil {
				return err.Error()
			}
		}
		return ""
	}
}

func vecBuildMenu() []spec.Batch { return nil }

func vecBuildOracle(seg segment.Segment, exp *ref.Content) string { return "" }

func refVecDocs() []spec.Doc { return nil }

func engineMisuse() string { return "" }
