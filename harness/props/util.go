package props

import (
	"encoding/json"

	"github.com/RoaringBitmap/roaring/v2"
)

func jsonStr(v interface{}) string {
	b, err := json.Marshal(v)
	if err != nil {
		return err.Error()
	}
	if len(b) > 1500 {
		return string(b[:1500]) + "...(truncated)"
	}
	return string(b)
}

type rbm = roaring.Bitmap
