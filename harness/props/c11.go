package props

import (
	"bytes"
	"fmt"
	"sort"
	"strings"
	"sync"

	"github.com/RoaringBitmap/roaring/v2"
	segment "github.com/blevesearch/scorch_segment_api/v2"

	"verif/dump"
	"verif/mc/sched"
	"verif/ref"
	"verif/run"
	"verif/spec"
	"verif/zx"
)

// ReaderCase: a shared segment, an optional sequential prefix operation and 2-3
// concurrent reader operations.
type ReaderCase struct {
	Seg    string `json:"seg"`    // mem | mmap
	Prefix int    `json:"prefix"` // -1 = none, else op index run sequentially first
	Ops    []int  `json:"ops"`
	Bound  int    `json:"bound"` // preemption bound, -1 unbounded
}

func readerBatch() spec.Batch {
	return spec.Batch{Docs: []spec.Doc{
		{ID: "r0", Fields: []spec.Field{
			{Name: "a", DV: true, Stored: true, Value: []byte("alpha value of doc zero"), Len: 2, Toks: []spec.Tok{{Term: "x", Freq: 1, Locs: []spec.Loc{{Pos: 1, Start: 0, End: 1}}}, {Term: "y", Freq: 2}}},
			{Name: "b", Stored: true, Value: []byte("bravo-0"), AP: []uint64{1, 2}, Len: 1, Toks: []spec.Tok{{Term: "x", Freq: 1}}},
		}},
		{ID: "r1", Fields: []spec.Field{
			{Name: "a", DV: true, Stored: true, Value: []byte("ALPHA VALUE OF DOC ONE, somewhat longer than the other"), Len: 1, Toks: []spec.Tok{{Term: "x", Freq: 1}}},
			{Name: "b", Stored: true, Value: []byte("BRAVO-1"), Len: 1, Toks: []spec.Tok{{Term: "z", Freq: 1}}},
		}},
		{ID: "r2", IDLast: true, Fields: []spec.Field{
			{Name: "s1", Kind: spec.Synonym, Syn: []spec.SynEntry{{Term: "k", Syns: []string{"u", "v"}}}},
		}},
	}}
}

type readerOp struct {
	name string
	run  func(seg segment.Segment, fails *[]string, mu *sync.Mutex) string
}

func readerOps() []readerOp {
	visit := func(doc uint64, stopAfter int) func(seg segment.Segment, fails *[]string, mu *sync.Mutex) string {
		return func(seg segment.Segment, fails *[]string, mu *sync.Mutex) string {
			var sb strings.Builder
			n := 0
			err := seg.VisitStoredFields(doc, func(field string, typ byte, value []byte, pos []uint64) bool {
				n++
				snap := append([]byte{}, value...)
				psnap := append([]uint64{}, pos...)
				yield("inside stored-field visitor callback")
				if !bytes.Equal(snap, value) || fmt.Sprint(psnap) != fmt.Sprint(append([]uint64{}, pos...)) {
					failf(fails, mu, "bytes handed to the stored-field visitor changed during the callback: doc %d field %q was %q, now %q", doc, field, snap, value)
				}
				fmt.Fprintf(&sb, "(%s %c %q %v)", field, typ, snap, psnap)
				return stopAfter == 0 || n < stopAfter
			})
			if err != nil {
				return "error: " + err.Error()
			}
			return sb.String()
		}
	}
	return []readerOp{
		{"dictionary+postings(a)", func(seg segment.Segment, _ *[]string, _ *sync.Mutex) string {
			d, err := seg.Dictionary("a")
			if err != nil {
				return "error: " + err.Error()
			}
			var sb strings.Builder
			it := d.AutomatonIterator(nil, nil, nil)
			for {
				e, err := it.Next()
				if err != nil {
					return "error: " + err.Error()
				}
				if e == nil {
					break
				}
				pl, err := d.PostingsList([]byte(e.Term), nil, nil)
				if err != nil {
					return "error: " + err.Error()
				}
				hits, err := dump.ReadPostings(pl.Iterator(true, true, true, nil))
				if err != nil {
					return "error: " + err.Error()
				}
				fmt.Fprintf(&sb, "%q:%d:%v;", e.Term, e.Count, hits)
			}
			return sb.String()
		}},
		{"visit-stored(doc0)", visit(0, 0)},
		{"visit-stored(doc1)", visit(1, 0)},
		{"visit-stored(doc1, stop after _id)", visit(1, 1)},
		{"visit-stored(doc0, stop after 2)", visit(0, 2)},
		{"DocID(1)", func(seg segment.Segment, _ *[]string, _ *sync.Mutex) string {
			id, err := seg.DocID(1)
			return fmt.Sprintf("%q %v", id, err)
		}},
		{"DocNumbers", func(seg segment.Segment, _ *[]string, _ *sync.Mutex) string {
			bm, err := seg.DocNumbers([]string{"r0", "r2", "zz"})
			if err != nil {
				return "error: " + err.Error()
			}
			return fmt.Sprint(bm.ToArray())
		}},
		{"doc-values(a)", func(seg segment.Segment, _ *[]string, _ *sync.Mutex) string {
			var out []string
			var st segment.DocVisitState
			var err error
			for d := uint64(0); d < 3; d++ {
				st, err = seg.(segment.DocValueVisitable).VisitDocValues(d, []string{"a", "b"}, func(f string, t []byte) {
					out = append(out, fmt.Sprintf("%d:%s=%s", d, f, t))
				}, st)
				if err != nil {
					return "error: " + err.Error()
				}
			}
			sort.Strings(out)
			return strings.Join(out, ",")
		}},
		{"thesaurus(s1)", func(seg segment.Segment, _ *[]string, _ *sync.Mutex) string {
			th, err := seg.(segment.ThesaurusSegment).Thesaurus("s1")
			if err != nil {
				return "error: " + err.Error()
			}
			ps, err := dump.ReadSynonyms(th, "k", nil)
			return fmt.Sprintf("%v %v", ps, err)
		}},
		{"postings(absent term, then x reusing list+iterator)", func(seg segment.Segment, _ *[]string, _ *sync.Mutex) string {
			d, err := seg.Dictionary("a")
			if err != nil {
				return "error: " + err.Error()
			}
			pl, err := d.PostingsList([]byte("zz-absent"), nil, nil)
			if err != nil {
				return "error: " + err.Error()
			}
			it := pl.Iterator(true, true, true, nil)
			yield("holding the iterator of an absent term")
			pl2, err := d.PostingsList([]byte("x"), nil, pl)
			if err != nil {
				return "error: " + err.Error()
			}
			it2 := pl2.Iterator(true, true, true, it)
			var hits []ref.Hit
			for {
				p, err := it2.Next()
				if err != nil {
					return "error: " + err.Error()
				}
				if p == nil {
					break
				}
				hits = append(hits, dump.HitOf(p))
				yield("between two hits of a reused iterator")
			}
			return fmt.Sprint(hits)
		}},
		{"postings(absent term)", func(seg segment.Segment, _ *[]string, _ *sync.Mutex) string {
			d, err := seg.Dictionary("b")
			if err != nil {
				return "error: " + err.Error()
			}
			pl, err := d.PostingsList([]byte("zz-absent"), nil, nil)
			if err != nil {
				return "error: " + err.Error()
			}
			it := pl.Iterator(true, true, true, nil)
			yield("holding the iterator of an absent term")
			hits, err := dump.ReadPostings(it)
			if err != nil {
				return "error: " + err.Error()
			}
			return fmt.Sprintf("count=%d hits=%v", pl.Count(), hits)
		}},
		{"merge(with the segment as input)", func(seg segment.Segment, _ *[]string, _ *sync.Mutex) string {
			path := zx.TempPath("c11m")
			defer zx.Remove(path)
			// the segment twice, a different document dropped from each copy: both inputs take
			// the decode-and-rewrite path, one after the other
			maps, _, err := zx.Plugin.Merge([]segment.Segment{seg, seg}, []*roaring.Bitmap{roaring.BitmapOf(1), roaring.BitmapOf(0)}, path, nil, nil)
			if err != nil {
				return "error: " + err.Error()
			}
			o, err := zx.Plugin.Open(path)
			if err != nil {
				return "error: " + err.Error()
			}
			defer o.Close()
			c, err := dump.Segment(o, dump.Universe{})
			if err != nil {
				return "error: " + err.Error()
			}
			return fmt.Sprint(maps) + c.Render(ref.All)
		}},
	}
}

func readerSegment(kind string) (segment.Segment, func(), error) {
	mem, _, err := zx.Build(readerBatch(), 2)
	if err != nil {
		return nil, func() {}, err
	}
	if kind == "mem" {
		return mem, func() { mem.Close() }, nil
	}
	o, path, err := zx.PersistOpen(mem)
	if err != nil {
		mem.Close()
		return nil, func() {}, err
	}
	return o, func() { o.Close(); mem.Close(); zx.Remove(path) }, nil
}

var readerExpected map[string][]string

// expectedReader computes every operation's sequential answer on a fresh segment.
func expectedReader(kind string) ([]string, error) {
	if readerExpected == nil {
		readerExpected = map[string][]string{}
	}
	if e, ok := readerExpected[kind]; ok {
		return e, nil
	}
	var rv []string
	for _, op := range readerOps() {
		seg, done, err := readerSegment(kind)
		if err != nil {
			return nil, err
		}
		var fails []string
		var mu sync.Mutex
		rv = append(rv, op.run(seg, &fails, &mu))
		done()
		if len(fails) > 0 {
			return nil, fmt.Errorf("sequential run of %s failed: %v", op.name, fails)
		}
	}
	readerExpected[kind] = rv
	return rv, nil
}

func runC11(ci interface{}, a *run.Acc) {
	c := *ci.(*ReaderCase)
	ops := readerOps()
	exp, err := expectedReader(c.Seg)
	if err != nil {
		a.Violation("setup-error", err.Error())
		return
	}
	var names []string
	for _, o := range c.Ops {
		names = append(names, ops[o].name)
	}
	desc := fmt.Sprintf("%s segment; prefix: %s; concurrent: %s", c.Seg, map[bool]string{true: "none", false: ""}[c.Prefix < 0], strings.Join(names, " || "))
	if c.Prefix >= 0 {
		desc = fmt.Sprintf("%s segment; sequential prefix: %s; concurrent: %s", c.Seg, ops[c.Prefix].name, strings.Join(names, " || "))
	}
	body := func(fails *[]string, mu *sync.Mutex) {
		seg, done, err := readerSegment(c.Seg)
		if err != nil {
			failf(fails, mu, "setup: %v", err)
			return
		}
		defer done()
		if c.Prefix >= 0 {
			if got := ops[c.Prefix].run(seg, fails, mu); got != exp[c.Prefix] {
				failf(fails, mu, "sequential prefix %s returned %s, want %s", ops[c.Prefix].name, got, exp[c.Prefix])
			}
		}
		var bodies []func()
		for _, o := range c.Ops {
			o := o
			bodies = append(bodies, func() {
				got := ops[o].run(seg, fails, mu)
				if got != exp[o] {
					failf(fails, mu, "%s returned\n   %s\nwhen run concurrently, but\n   %s\nwhen run alone", ops[o].name, got, exp[o])
				}
			})
		}
		parallel(bodies...)
	}
	opt := sched.Options{PreemptionBound: c.Bound, EnvBound: 1, MaxExecutions: 400000}
	res := exploreCase(body, opt, 30, a)
	res.record(a, fmt.Sprint(c))
	a.NonTrivial(fmt.Sprint(c))
	if strings.HasPrefix(res.failure, "HARNESS") {
		a.Note(res.failure + " in " + desc)
		a.Capped = true
		a.Outcome("inconclusive")
		return
	}
	if res.failure != "" {
		sig := "concurrent-read"
		switch {
		case strings.Contains(res.failure, "sync.Pool"):
			sig = "pool-ownership"
		case strings.Contains(res.failure, "changed during the callback"):
			sig = "visitor-bytes-changed"
		case strings.Contains(res.failure, "deadlock"):
			sig = "deadlock"
		case strings.Contains(res.failure, "HARNESS"):
			sig = "harness"
		}
		a.Violation(sig, fmt.Sprintf("%s\nschedule (choice list) %v, preemption bound %d:\n%s", desc, res.schedule, c.Bound, res.failure))
		a.Outcome("violation")
		return
	}
	a.Outcome("ok")
}

func genC11(tier string, emit func(interface{})) {
	n := len(readerOps())
	merge := n - 1
	quick := tier == "quick"
	if strings.HasPrefix(run.Flavour, "inst") {
		for _, seg := range []string{"mem", "mmap"} {
			for prefix := -1; prefix < n; prefix++ {
				if quick && prefix != -1 && prefix != 3 && prefix != 4 {
					continue
				}
				// all pairs without merge: ALL interleavings
				for i := 0; i < merge; i++ {
					for j := i; j < merge; j++ {
						emit(ReaderCase{Seg: seg, Prefix: prefix, Ops: []int{i, j}, Bound: -1})
					}
				}
				// pairs with a merge: preemption bounded
				if quick && prefix == 4 {
					continue
				}
				for i := 0; i < n; i++ {
					b := 2
					if quick {
						b = 1
					}
					emit(ReaderCase{Seg: seg, Prefix: prefix, Ops: []int{i, merge}, Bound: b})
				}
			}
			// triples without merge, preemption bounded
			for _, prefix := range []int{-1, 3} {
				for i := 0; i < merge; i++ {
					for j := i; j < merge; j++ {
						for k := j; k < merge; k++ {
							b := 2
							if quick {
								b = 1
								if (i+j+k)%2 == 1 {
									continue
								}
							}
							emit(ReaderCase{Seg: seg, Prefix: prefix, Ops: []int{i, j, k}, Bound: b})
						}
					}
				}
			}
		}
		return
	}
	// race pass: the same bodies free-running
	for _, seg := range []string{"mem", "mmap"} {
		for _, prefix := range []int{-1, 3} {
			for i := 0; i < n; i++ {
				for j := i; j < n; j++ {
					emit(ReaderCase{Seg: seg, Prefix: prefix, Ops: []int{i, j, (i + j) % n}, Bound: 0})
				}
			}
		}
	}
}

func init() {
	run.Register(&run.Def{
		ID:          "C11",
		Level:       "model_checking",
		Rule:        "stateless model checking of the real reader code under a controlled scheduler (sync.Mutex / RWMutex / Pool and `go` replaced at build time by modelled primitives; every lock, pool and callback operation is a scheduling point; which object sync.Pool.Get returns is an environment choice explored up to 1 deviation): one shared segment (3 documents: text fields with doc values and stored values, a thesaurus; in-memory and mmap-opened, built afresh in every execution) and a menu of 12 operations (dictionary + full postings iteration; a lookup of an absent term followed by a lookup that reuses its list and iterator as preallocation; a lookup of an absent term alone (both yield while holding the shared empty-iterator sentinel); full stored-field visits of two documents; visits stopping after the first / second field; DocID; DocNumbers; doc values with a private state; thesaurus lookup; Merge with the segment as both of its two inputs, a different document dropped from each, so that two inputs in a row are decoded and rewritten). Every visitor callback snapshots the bytes it was given, yields to the scheduler and compares them on resumption. Explored: every pair of non-merge operations with ALL interleavings; every (operation, merge) pair and every triple of non-merge operations with a preemption bound (1 quick / 2 thorough); each preceded by a sequential prefix history of length <= 1 (quick: none / visit stopped after _id / visit stopped after 2 fields; thorough: every operation of the menu). Oracle: every call returns its sequential answer; callback bytes stay unchanged; no object is put into a pool twice / handed to two owners; no deadlock; every failing schedule is replayed twice before it is reported. Complemented by a separate free-running pass of the same bodies under the Go race detector (a cooperative scheduler's hand-offs hide races from it).",
		Assumptions: []string{"scheduling points are placed at synchronisation operations only; unsynchronised accesses between them are delegated to the free-running -race pass, which is dynamic detection, not enumeration", "Go map iteration order inside zapx is not controlled (it does not change the synchronisation skeleton)"},
		Bounds:      map[string]string{"quick": "non-merge pairs: all interleavings x prefixes {none, 2 early-stopped visits}; merge pairs and every second triple: preemption bound 1; race pass 30 free runs per case", "thorough": "non-merge pairs: all interleavings x all 11 prefixes; merge pairs and triples: preemption bound 2; race pass"},
		Flavours:    func(string) []string { return []string{"inst", "race"} },
		New:         func() interface{} { return &ReaderCase{} },
		Gen:         genC11,
		Run:         runC11,
	})
}
