package props

import (
	"fmt"
	"sort"

	"verif/dump"
	"verif/enum"
	"verif/ref"
	"verif/run"
	"verif/zx"
)

func init() {
	run.Register(&run.Def{
		ID:          "C02",
		Level:       "exploration",
		Rule:        "bounded-exhaustive batches of the stored-field family: every assignment of a 9-entry cell menu (absent, indexed-not-stored, stored empty value, short value, array positions of length 1 and 3 incl. a >32-bit position, two stored instances with different type bytes, 70000-byte value (> one snappy block), 300 incompressible bytes) to (document, field in {a,b}) for N<=2 (reduced menus for N=3), _id first/last, duplicate ids; plus the C01 families. Per batch: full visit of every doc number 0..Count+1, a visitor stopping after the j-th callback for every j, DocID, DocNumbers for every one of the 256 subsets of 8 probe ids, each in ascending, descending and rotated order (present, absent below / between / equal-to-max / above max key, empty id), Count, Fields. Non-trivial = at least one stored non-_id value.",
		Assumptions: batchAssumptions,
		Bounds:      map[string]string{"quick": "N<=2 with 7-entry menu, N=3 with 4-entry menu, all 256 probe-id subsets", "thorough": "N<=2 full 9-entry menu, N=3 6-entry menu, all 256 probe-id subsets"},
		New:         func() interface{} { return &enum.StoredCase{} },
		Gen: func(tier string, emit func(interface{})) {
			enum.StoredBatches(tier, func(c enum.StoredCase) { emit(c) })
		},
		Run: func(ci interface{}, a *run.Acc) {
			c := *ci.(*enum.StoredCase)
			b := c.Batch()
			exp := ref.FromBatch(b)
			seg, _, err := zx.Build(b, c.Mode)
			if err != nil {
				a.Violation("build-error", "New returned error: "+err.Error()+"\n"+jsonStr(c))
				return
			}
			defer seg.Close()
			got, err := dump.Segment(seg, dump.UniverseOf(exp))
			a.Eval(1)
			nontriv := false
			for _, sv := range exp.Stored {
				if len(sv) > 1 {
					nontriv = true
				}
			}
			if nontriv {
				a.NonTrivial(c.Key())
			}
			if err != nil {
				a.Violation("read-error", err.Error()+"\n"+jsonStr(c))
				return
			}
			if d := zx.Compare(exp, got, ref.Sections{Meta: true, Stored: true}); d != "" {
				a.Violation("stored-mismatch", d+jsonStr(c))
				return
			}
			// early termination: exactly j+1 callbacks
			for d, sv := range exp.Stored {
				for j := 0; j < len(sv); j++ {
					n := 0
					var last ref.StoredVal
					err := seg.VisitStoredFields(uint64(d), func(field string, typ byte, value []byte, pos []uint64) bool {
						last = ref.StoredVal{Field: field, Typ: typ, Val: append([]byte{}, value...)}
						n++
						return n <= j
					})
					a.Eval(1)
					if err != nil || n != j+1 || last.Field != sv[j].Field || string(last.Val) != string(sv[j].Val) {
						a.Violation("early-stop", fmt.Sprintf("doc %d: visitor stopping after callback %d saw %d callbacks (err %v), last %q=%q want %q=%q\n%s",
							d, j, n, err, last.Field, last.Val, sv[j].Field, sv[j].Val, jsonStr(c)))
						return
					}
				}
			}
			// DocNumbers
			probes := []string{"", "d", "d0", "d00", "d1", "d2", "d9", "zz"}
			byID := map[string][]uint32{}
			for i, d := range b.Docs {
				byID[d.ID] = append(byID[d.ID], uint32(i))
			}
			for mask := 0; mask < 1<<len(probes); mask++ {
				var ids []string
				var want []uint32
				for i, p := range probes {
					if mask&(1<<i) != 0 {
						ids = append(ids, p)
						want = append(want, byID[p]...)
					}
				}
				sort.Slice(want, func(x, y int) bool { return want[x] < want[y] })
				// the order of the ids in the list must not matter: ascending, descending, rotated
				orders := [][]string{ids}
				if len(ids) > 1 {
					rev := make([]string, len(ids))
					for i, id := range ids {
						rev[len(ids)-1-i] = id
					}
					rot := append(append([]string{}, ids[len(ids)/2:]...), ids[:len(ids)/2]...)
					orders = append(orders, rev, rot)
				}
				for _, list := range orders {
					bm, err := seg.DocNumbers(list)
					a.Eval(1)
					if err != nil {
						a.Violation("docnumbers-error", fmt.Sprintf("DocNumbers(%q): %v\n%s", list, err, jsonStr(c)))
						return
					}
					gotN := bm.ToArray()
					if fmt.Sprint(gotN) != fmt.Sprint(want) && !(len(gotN) == 0 && len(want) == 0) {
						a.Violation("docnumbers-mismatch", fmt.Sprintf("DocNumbers(%q) = %v, want %v\n%s", list, gotN, want, jsonStr(c)))
						return
					}
				}
			}
			a.Outcome(fmt.Sprintf("ok/docs=%d", c.N))
		},
	})
}
