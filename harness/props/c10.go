package props

import (
	"bytes"
	"errors"
	"fmt"
	"io"
	"runtime/debug"
	"strings"
	"sync"

	index "github.com/blevesearch/bleve_index_api"
	segment "github.com/blevesearch/scorch_segment_api/v2"
	zap "github.com/blevesearch/zapx/v16"

	"verif/dump"
	"verif/enum"
	"verif/mc/sched"
	"verif/ref"
	"verif/run"
	"verif/spec"
	"verif/zx"
)

// BuildCase: a history of builds in one process (pooled builder memory), or a
// set of concurrent builds.
type BuildCase struct {
	Kind    string `json:"kind"` // hist | conc
	Seq     []int  `json:"seq"`  // menu indexes
	Preseed int    `json:"preseed"`
	Bound   int    `json:"bound"`
}

var errRejected = errors.New("field rejected by the validator")

func largeBatch() spec.Batch {
	var b spec.Batch
	names := []string{"a", "b", "c", "d", "e", "f"}
	for d := 0; d < 3; d++ {
		doc := spec.Doc{ID: fmt.Sprintf("L%d", d)}
		for fi, n := range names {
			f := spec.Field{Name: n, DV: fi%2 == 0, Stored: fi%3 == 0, Value: []byte(fmt.Sprintf("value %s %d", n, d)), Len: 6}
			if fi == 0 && d == 0 {
				// a stored payload far larger than any other item's (the builder's stored-data
				// scratch buffers grow to it and are kept for the next build)
				f.Value = []byte(strings.Repeat(string(f.Value)+" ", 50))
			}
			for t := 0; t < 6; t++ {
				tok := spec.Tok{Term: fmt.Sprintf("t%d%s", (t+d+fi)%8, n), Freq: 1 + t%2}
				if t%2 == 0 {
					tok.Locs = []spec.Loc{{Pos: t + 1, Start: t, End: t + 2, AP: []uint64{uint64(d), uint64(t)}}}
				}
				f.Toks = append(f.Toks, tok)
			}
			doc.Fields = append(doc.Fields, f)
			if fi == 0 {
				g := f
				g.Toks = []spec.Tok{{Term: "extra", Freq: 1}}
				g.Len = 1
				g.AP = []uint64{1}
				doc.Fields = append(doc.Fields, g)
			}
		}
		b.Docs = append(b.Docs, doc)
	}
	return b
}

func manyDocsBatch() spec.Batch {
	var b spec.Batch
	for d := 0; d < 12; d++ {
		b.Docs = append(b.Docs, spec.Doc{ID: fmt.Sprintf("m%02d", d), Fields: []spec.Field{
			{Name: "a", Len: 1 + d%3, DV: true, Toks: []spec.Tok{{Term: "x", Freq: 1 + d%2}, {Term: fmt.Sprintf("u%d", d%4), Freq: 1, Locs: []spec.Loc{{Pos: 1, Start: 0, End: 1}}}}},
		}})
	}
	return b
}

func buildMenu() []spec.Batch {
	tm, sm := enum.TextMenu(), enum.SynMenu()
	rejected := spec.Batch{Docs: []spec.Doc{
		{ID: "ok", Fields: []spec.Field{{Name: "a", Len: 1, Stored: true, Value: []byte("fine"), Toks: []spec.Tok{{Term: "x", Freq: 1}}}}},
		{ID: "no", Fields: []spec.Field{{Name: "bad", Len: 2, DV: true, Stored: true, Value: []byte("rejected"), Toks: []spec.Tok{{Term: "q", Freq: 1}, {Term: "r", Freq: 1}}}}},
	}}
	smallClash := spec.Batch{Docs: []spec.Doc{{ID: "o0", Fields: []spec.Field{
		{Name: "a", Len: 1, Stored: true, Value: []byte("ex"), Toks: []spec.Tok{{Term: "x", Freq: 1}}},
		{Name: "s1", Len: 2, DV: true, Toks: []spec.Tok{{Term: "a", Freq: 1, Locs: []spec.Loc{{Pos: 1, Start: 0, End: 1}}}, {Term: "x", Freq: 1}}},
		{Name: "v", Len: 1, Stored: true, Value: []byte("vee"), Toks: []spec.Tok{{Term: "x", Freq: 2}}},
	}}, enum.SynDoc(1, 18)}} // + a definition document for thesaurus s2 whose only term has no synonym
	m := []spec.Batch{
		{},              // 0 empty
		smallClash,      // 1 one small document whose TEXT fields are named like the thesaurus (s1) and the vector field (v) of other items
		largeBatch(),    // 2 many fields, terms, doc values, locations, arrays
		manyDocsBatch(), // 3 few fields, many documents
		sm[3],           // 4 synonyms: two thesauri
		sm[2],           // 5 synonyms: one thesaurus (fewer than the previous)
		rejected,        // 6 rejected by the field validator
		tm[4],           // 7 composite field, overlapping field names
	}
	// last item (index 8, or 10 under the vectors tag): more documents than one doc-value
	// chunk holds; only used by the 'growth' histories
	return append(append(m, vecBuildMenu()...), growBatch())
}

// growBatch: 1030 small documents with a doc-value field (two doc-value chunks).
func growBatch() spec.Batch {
	var b spec.Batch
	for d := 0; d < 1030; d++ {
		b.Docs = append(b.Docs, spec.Doc{ID: fmt.Sprintf("g%04d", d), Fields: []spec.Field{
			{Name: "a", Len: 1, DV: true, Toks: []spec.Tok{{Term: fmt.Sprintf("w%d", d%5), Freq: 1}}},
		}})
	}
	return b
}

func installValidator() func() {
	old := zap.ValidateDocFields
	zap.ValidateDocFields = func(f index.Field) error {
		if f.Name() == "bad" {
			return errRejected
		}
		return nil
	}
	return func() { zap.ValidateDocFields = old }
}

// buildOnly builds menu item i; checkBuilt compares the result with its reference.
type built struct {
	i   int
	seg segment.Segment
	err error
}

func buildOnly(menu []spec.Batch, i int) built {
	seg, _, err := zx.Build(menu[i], 1026)
	return built{i, seg, err}
}

func checkBuilt(menu []spec.Batch, bt built, who string, fails *[]string, mu *sync.Mutex) {
	// observation only: the pool's alternative answers are explored for the builds, not for the reads
	sched.DefaultEnv(func() { checkBuilt1(menu, bt, who, fails, mu) })
}

func checkBuilt1(menu []spec.Batch, bt built, who string, fails *[]string, mu *sync.Mutex) {
	i, seg, err := bt.i, bt.seg, bt.err
	exp := ref.FromBatch(menu[i])
	if i == 6 {
		if err == nil {
			failf(fails, mu, "%s: the batch with a rejected field was built without error", who)
			seg.Close()
		}
		return
	}
	if err != nil {
		failf(fails, mu, "%s: build of menu item %d failed: %v", who, i, err)
		return
	}
	defer seg.Close()
	got, err := dump.Segment(seg, dump.UniverseOf(exp))
	if err != nil {
		failf(fails, mu, "%s: segment built from menu item %d cannot be read: %v", who, i, err)
		return
	}
	if d := zx.Compare(exp, got, ref.All); d != "" {
		failf(fails, mu, "%s: segment built from menu item %d differs from the specification of its own batch:\n%s", who, i, d)
		return
	}
	if m := vecBuildOracle(seg, exp); m != "" {
		failf(fails, mu, "%s: segment built from menu item %d: %s", who, i, m)
	}
	// the bytes the segment would persist: footer and CRC must describe this batch
	var buf bytes.Buffer
	if _, err := seg.(io.WriterTo).WriteTo(&buf); err != nil {
		failf(fails, mu, "%s: WriteTo of the segment built from menu item %d: %v", who, i, err)
	} else if m := CheckFile(buf.Bytes(), exp.Count, 1026); m != "" {
		failf(fails, mu, "%s: bytes of the segment built from menu item %d: %s", who, i, m)
	} else if i == 0 && c10EmptyBaseline != nil && !bytes.Equal(buf.Bytes(), c10EmptyBaseline) {
		// the empty batch has no maps whose order could vary: its bytes are a function of the
		// batch and the chunk mode alone
		failf(fails, mu, "%s: the EMPTY batch gives other bytes than it gave at the start of this history (%d bytes, first difference at offset %d: % x vs % x)", who, buf.Len(), firstDiff(buf.Bytes(), c10EmptyBaseline), tailFrom(buf.Bytes(), firstDiff(buf.Bytes(), c10EmptyBaseline)), tailFrom(c10EmptyBaseline, firstDiff(buf.Bytes(), c10EmptyBaseline)))
	} else if kind, m := decodeAndCompare(buf.Bytes(), exp, 1026, false); kind != "" && !strings.HasPrefix(kind, "thesaurus-without-entries") {
		// decoded independently: nothing of an earlier build (a section address, say) may be in them
		failf(fails, mu, "%s: bytes of the segment built from menu item %d (%s): %s", who, i, kind, m)
	}
}

// c10EmptyBaseline: bytes of the empty batch built at the start of the current history.
var c10EmptyBaseline []byte

func firstDiff(a, b []byte) int {
	for i := 0; i < len(a) && i < len(b); i++ {
		if a[i] != b[i] {
			return i
		}
	}
	return min(len(a), len(b))
}

func tailFrom(b []byte, i int) []byte {
	if i > len(b) {
		i = len(b)
	}
	return b[i:min(len(b), i+8)]
}

func emptyBatchBytes() []byte {
	seg, _, err := zx.Build(spec.Batch{}, 1026)
	if err != nil {
		return nil
	}
	defer seg.Close()
	var buf bytes.Buffer
	if _, err := seg.(io.WriterTo).WriteTo(&buf); err != nil {
		return nil
	}
	return buf.Bytes()
}

func buildAndCheck(menu []spec.Batch, i int, who string, fails *[]string, mu *sync.Mutex) {
	checkBuilt(menu, buildOnly(menu, i), who, fails, mu)
}

func runC10(ci interface{}, a *run.Acc) {
	c := *ci.(*BuildCase)
	menu := buildMenu()
	restore := installValidator()
	defer restore()
	for _, i := range c.Seq {
		if i >= len(menu) {
			return
		}
	}
	prepareVecBatch(nil)
	body := func(fails *[]string, mu *sync.Mutex) {
		if c.Preseed > 0 {
			// leave used builders in the pool: concurrent builds cannot share one
			pb := make([]built, 2)
			pre := []func(){func() { pb[0] = buildOnly(menu, 2) }, func() { pb[1] = buildOnly(menu, 4) }}
			parallel(pre[:c.Preseed]...)
			// the pre-seeding builds are the concurrent pair (2,4), which is checked as a
			// case of its own; here they only leave their builders in the pool
			for k := 0; k < c.Preseed; k++ {
				if pb[k].err != nil {
					failf(fails, mu, "pre-seeding build failed: %v", pb[k].err)
				} else {
					pb[k].seg.Close()
				}
			}
		}
		if c.Kind == "hist" {
			c10EmptyBaseline = nil
			if c.Preseed == 0 && strings.HasPrefix(run.Flavour, "inst") {
				// (only where the order in which a segment lists its sections is pinned: in the
				// other flavours it follows Go's map order and legitimately varies)
				sched.DefaultEnv(func() { c10EmptyBaseline = emptyBatchBytes() })
			}
			for k, i := range c.Seq {
				buildAndCheck(menu, i, fmt.Sprintf("build %d of history %v", k, c.Seq), fails, mu)
			}
			return
		}
		// the builds run concurrently; their results are checked after the join
		res := make([]built, len(c.Seq))
		var bodies []func()
		for k, i := range c.Seq {
			k, i := k, i
			bodies = append(bodies, func() { res[k] = buildOnly(menu, i) })
		}
		parallel(bodies...)
		for k := range c.Seq {
			checkBuilt(menu, res[k], fmt.Sprintf("concurrent build %d of %v", k, c.Seq), fails, mu)
		}
	}
	if len(c.Seq) >= 2 {
		a.NonTrivial(fmt.Sprint(c))
	}
	var res concResult
	if strings.HasPrefix(run.Flavour, "inst") {
		env := 1
		if len(c.Seq) <= 2 {
			env = 2
		}
		res = exploreCase(body, sched.Options{PreemptionBound: c.Bound, EnvBound: env, MaxExecutions: 200000, InlineSpawns: true}, 0, a)
	} else {
		// real sync.Pool: keep the garbage collector from emptying it between builds
		old := debug.SetGCPercent(-1)
		runs := 1
		if c.Kind == "conc" {
			runs = 40
		}
		res = exploreCase(body, sched.Options{}, runs, a)
		debug.SetGCPercent(old)
	}
	res.record(a, fmt.Sprint(c))
	if strings.HasPrefix(res.failure, "HARNESS") {
		a.Note(res.failure)
		a.Capped = true
		return
	}
	if res.failure != "" {
		a.Violation("build-depends-on-history", fmt.Sprintf("%s of menu items %v (pool pre-seeded with %d used builders), schedule %v:\n%s", c.Kind, c.Seq, c.Preseed, res.schedule, res.failure))
		a.Outcome("violation")
		return
	}
	a.Outcome("ok/" + c.Kind)
}

var _ segment.Segment

func init() {
	run.Register(&run.Def{
		ID:          "C10",
		Level:       "model_checking",
		Rule:        "histories and schedules of real builds sharing the pooled builder memory: a batch menu of 8 items (empty; one small document whose text fields carry the names that the thesaurus and the vector field have in other items, plus a thesaurus whose only term has no synonym; many fields / terms / doc values / locations / arrays and a 500-byte stored value; few fields, many documents; synonyms with two thesauri; synonyms with one thesaurus; a batch rejected by the field validator; composite field with overlapping field names; under the vectors tag also a vector batch and a two-vector-field batch; and a batch of 1030 small documents with a doc-value field, used by the 'growth' histories: every sequence of length 2-3 over {small, 12 documents, 1030 documents} that contains it). (a) EVERY sequence over the menu of length <= 3 (quick) / 4 (thorough), run in one process: under the controlled scheduler with a deterministic sync.Pool (Get returns the most recently put builder = maximal reuse; the alternatives 'another pooled builder' and 'a fresh one' are explored as environment deviations, bound 1-2), with the pool empty or pre-seeded with 1-2 used builders left by concurrent builds (histories run without preemptions; goroutines spawned by the code run to completion at the spawn point); and with the real sync.Pool (GC disabled). (b) 2 goroutines building concurrently: every pair of the menu, pool pre-seeded with 0/1/2 used builders, interleavings at pool operations up to 4 preemptions (each build has 2 pool operations, so this covers all interleavings of 2 builds; 2 preemptions in quick when the pool is pre-seeded with 2 builders); 3 goroutines: every triple of a 5-item sub-menu, empty pool, preemption bound 2; results checked after the join; plus a free-running -race pass. Oracle: every build's complete dump equals the reference of its own batch (= what a fresh process would build), and the bytes it would persist carry a footer and CRC-32 that match them and decode, by the independent v16 decoder, to the same content (no section address of an earlier build in them); the bytes of the EMPTY batch are the same wherever it occurs in a history (scheduler flavours, where the order of a segment's section list is pinned); the rejected batch fails. Non-trivial = history or schedule with >= 2 builds.",
		Assumptions: append([]string{"the validator hook (exported variable ValidateDocFields) is set by the harness for the whole run"}, batchAssumptions...),
		Bounds:      map[string]string{"quick": "sequences <= 3 x preseed {0,2} (scheduler) and <= 3 (real pool); all concurrent pairs, triples of a 5-item sub-menu; race pass", "thorough": "sequences <= 4 x preseed {0,1,2}; same concurrent space"},
		Flavours:    func(string) []string { return []string{"inst", "instvec", "plain", "race"} },
		New:         func() interface{} { return &BuildCase{} },
		Gen: func(tier string, emit func(interface{})) {
			n := 8
			if strings.HasSuffix(run.Flavour, "vec") {
				n = 10
			}
			maxLen := 3
			if tier == "thorough" {
				maxLen = 4
			}
			sub := []int{1, 2, 4, 6, 3}
			switch run.Flavour {
			case "inst", "instvec":
				preseeds := []int{0, 2}
				if tier == "thorough" {
					preseeds = []int{0, 1, 2}
				}
				for l := 1; l <= maxLen; l++ {
					enum.Product(l, n, func(v []int) {
						if run.Flavour == "instvec" {
							// only histories that involve a vector batch (the others are covered by inst)
							has := false
							for _, x := range v {
								has = has || x >= 8
							}
							if !has {
								return
							}
						}
						for _, p := range preseeds {
							if p > 0 && l == maxLen && tier == "quick" {
								continue
							}
							emit(BuildCase{Kind: "hist", Seq: v, Preseed: p, Bound: 0})
						}
					})
				}
				if run.Flavour == "inst" {
					// growth histories: a batch of at most one doc-value chunk, then one of 1030 documents (and back)
					for l := 2; l <= 3; l++ {
						enum.ProductOf(l, []int{1, 3, n}, func(v []int) {
							for _, x := range v {
								if x == n {
									emit(BuildCase{Kind: "hist", Seq: v, Preseed: 0, Bound: 0})
									return
								}
							}
						})
					}
				}
				for _, p := range []int{0, 1, 2} {
					for i := 0; i < n; i++ {
						for j := i; j < n; j++ {
							if run.Flavour == "instvec" && j < 8 {
								continue
							}
							b := 4
							if p == 2 && tier == "quick" {
								b = 2
							}
							emit(BuildCase{Kind: "conc", Seq: []int{i, j}, Preseed: p, Bound: b})
						}
					}
					if run.Flavour == "instvec" {
						continue
					}
					for _, i := range sub {
						for _, j := range sub {
							for _, k := range sub {
								if i <= j && j <= k && p == 0 {
									emit(BuildCase{Kind: "conc", Seq: []int{i, j, k}, Preseed: p, Bound: 2})
								}
							}
						}
					}
				}
			case "plain":
				for l := 1; l <= maxLen; l++ {
					enum.Product(l, n, func(v []int) { emit(BuildCase{Kind: "hist", Seq: v}) })
				}
				for l := 2; l <= 3; l++ {
					enum.ProductOf(l, []int{1, 3, n}, func(v []int) {
						for _, x := range v {
							if x == n {
								emit(BuildCase{Kind: "hist", Seq: v})
								return
							}
						}
					})
				}
			default: // race
				for i := 0; i < n; i++ {
					for j := i; j < n; j++ {
						emit(BuildCase{Kind: "conc", Seq: []int{i, j, (i + j) % n}})
					}
				}
			}
		},
		Run: runC10,
	})
}
