package props

import (
	"fmt"
	"sort"

	"github.com/RoaringBitmap/roaring/v2"
	segment "github.com/blevesearch/scorch_segment_api/v2"

	"verif/dump"
	"verif/enum"
	"verif/ref"
	"verif/run"
	"verif/zx"
)

// filterPairs keeps the pairs whose doc is not excluded.
func filterPairs(ps []ref.SynPair, except *roaring.Bitmap) []ref.SynPair {
	var out []ref.SynPair
	for _, p := range ps {
		if except == nil || !except.Contains(p.Doc) {
			out = append(out, p)
		}
	}
	return out
}

// checkThesauri compares every (thesaurus, term, except) lookup with exp.
func checkThesauri(seg segment.Segment, exp *ref.Content, a *run.Acc, where string) string {
	ts, ok := seg.(segment.ThesaurusSegment)
	if !ok {
		return fmt.Sprintf("%s: %T is not a ThesaurusSegment", where, seg)
	}
	n := uint(exp.Count)
	names := []string{"s1", "s2", "zz", "f", "_id"}
	terms := []string{"a", "b", "c", "zz", ""}
	for _, name := range names {
		th, err := ts.Thesaurus(name)
		if err != nil {
			return fmt.Sprintf("%s: Thesaurus(%q): %v", where, name, err)
		}
		for mask := 0; mask < 1<<n; mask++ {
			var except *roaring.Bitmap
			if mask != 0 {
				except = roaring.New()
				for d := uint(0); d < n; d++ {
					if mask&(1<<d) != 0 {
						except.Add(uint32(d))
					}
				}
			}
			for _, term := range terms {
				got, err := dump.ReadSynonyms(th, term, except)
				a.Eval(1)
				if err != nil {
					return fmt.Sprintf("%s: thesaurus %q term %q except %v: %v", where, name, term, except, err)
				}
				want := filterPairs(exp.Thes[name][term], except)
				if fmt.Sprint(got) != fmt.Sprint(want) && !(len(got) == 0 && len(want) == 0) {
					return fmt.Sprintf("%s: thesaurus %q term %q except %v: got %v want %v", where, name, term, except, got, want)
				}
			}
		}
	}
	// the full reuse matrix belongs to C12 (segments of the build alphabet); on merged and
	// other segments (C13, C20, ...) a reduced one is run: objects reused after all / no calls
	return thesaurusReuse(ts, exp, a, where, where != "in-memory" && where != "re-opened")
}

// thesaurusReuse: every ordered pair of (thesaurus, term) lookups, the second one
// passing the first one's SynonymsList and SynonymsIterator back in (after the first
// iterator was read partially or completely), with and without an exclusion bitmap.
func thesaurusReuse(ts segment.ThesaurusSegment, exp *ref.Content, a *run.Acc, where string, reduced bool) string {
	type look struct{ name, term string }
	var looks []look
	for _, name := range []string{"s1", "s2", "zz"} {
		for _, term := range []string{"a", "b", "c", "zz"} {
			looks = append(looks, look{name, term})
		}
	}
	var oneDoc *roaring.Bitmap
	var firstDoc *roaring.Bitmap
	if exp.Count > 0 {
		oneDoc = roaring.BitmapOf(uint32(exp.Count - 1))
		firstDoc = roaring.BitmapOf(0)
	}
	for _, l1 := range looks {
		for _, l2 := range looks {
			for ei, except := range []*roaring.Bitmap{nil, oneDoc, nil, firstDoc} {
				// except1: exclusion of the FIRST lookup (whose objects are then reused): none for
				// the first two rounds, then the last / the first document
				except1 := []*roaring.Bitmap{nil, nil, oneDoc, firstDoc}[ei]
				if ei >= 2 && exp.Count == 0 {
					continue
				}
				consumes := []int{0, 1, -1, 10, 11, 9}
				if reduced {
					consumes = []int{-1, 10}
				}
				for _, consume := range consumes {
					// consume >= 9: only the ITERATOR is handed on (after consume-10 calls); the first
					// list stays in use and must still describe its own pairs afterwards
					donateOnly := consume >= 9
					if donateOnly {
						consume -= 10
					}
					th1, err := ts.Thesaurus(l1.name)
					if err != nil {
						return fmt.Sprintf("%s: Thesaurus(%q): %v", where, l1.name, err)
					}
					sl, err := th1.SynonymsList([]byte(l1.term), except1, nil)
					if err != nil {
						return fmt.Sprintf("%s: SynonymsList(%q,%q): %v", where, l1.name, l1.term, err)
					}
					it := sl.Iterator(nil)
					for k := 0; consume < 0 || k < consume; k++ {
						s, err := it.Next()
						if err != nil {
							return fmt.Sprintf("%s: iterating (%q,%q): %v", where, l1.name, l1.term, err)
						}
						if s == nil {
							break
						}
					}
					th2, err := ts.Thesaurus(l2.name)
					if err != nil {
						return fmt.Sprintf("%s: Thesaurus(%q): %v", where, l2.name, err)
					}
					pre := sl
					if donateOnly {
						pre = nil
					}
					sl2, err := th2.SynonymsList([]byte(l2.term), except, pre)
					if err != nil {
						return fmt.Sprintf("%s: lookup (%q,%q) reusing the list of (%q,%q): %v", where, l2.name, l2.term, l1.name, l1.term, err)
					}
					it2 := sl2.Iterator(it)
					var got []ref.SynPair
					for {
						s, err := it2.Next()
						if err != nil {
							return fmt.Sprintf("%s: lookup (%q,%q) reusing the list and iterator of (%q,%q) (after %d calls): iteration error %v", where, l2.name, l2.term, l1.name, l1.term, consume, err)
						}
						if s == nil {
							break
						}
						got = append(got, ref.SynPair{Syn: s.Term(), Doc: s.Number()})
					}
					sort.Slice(got, func(x, y int) bool {
						if got[x].Syn != got[y].Syn {
							return got[x].Syn < got[y].Syn
						}
						return got[x].Doc < got[y].Doc
					})
					a.Eval(1)
					want := filterPairs(exp.Thes[l2.name][l2.term], except)
					if fmt.Sprint(got) != fmt.Sprint(want) && !(len(got) == 0 && len(want) == 0) {
						return fmt.Sprintf("%s: lookup (%q,%q,except %v) reusing the list and iterator of (%q,%q,except %v) (after %d calls; iterator only: %v): got %v want %v", where, l2.name, l2.term, except, l1.name, l1.term, except1, consume, donateOnly, got, want)
					}
					if donateOnly {
						var again []ref.SynPair
						it3 := sl.Iterator(nil)
						for {
							s, err := it3.Next()
							if err != nil {
								return fmt.Sprintf("%s: list of (%q,%q) after its iterator was handed to (%q,%q): %v", where, l1.name, l1.term, l2.name, l2.term, err)
							}
							if s == nil {
								break
							}
							again = append(again, ref.SynPair{Syn: s.Term(), Doc: s.Number()})
						}
						sort.Slice(again, func(x, y int) bool {
							if again[x].Syn != again[y].Syn {
								return again[x].Syn < again[y].Syn
							}
							return again[x].Doc < again[y].Doc
						})
						want1 := filterPairs(exp.Thes[l1.name][l1.term], except1)
						if fmt.Sprint(again) != fmt.Sprint(want1) && !(len(again) == 0 && len(want1) == 0) {
							return fmt.Sprintf("%s: the list of (%q,%q), still in use after only its ITERATOR was handed to the lookup (%q,%q,except %v), now yields %v, want %v", where, l1.name, l1.term, l2.name, l2.term, except, again, want1)
						}
					}
				}
			}
		}
	}
	return ""
}

func init() {
	run.Register(&run.Def{
		ID:          "C12",
		Level:       "exploration",
		Rule:        "bounded-exhaustive: every batch of 1..3 documents (3 documents: a 17-kind sub-menu in quick) where each document is an ordinary text document, a synonym document for thesaurus s1/s2 with one of 9 entry shapes (a->[x]; a->[x,y]; b->[y]; two entries in both enumeration orders; reversed synonym list; duplicate synonym; three terms a, c, b; a term without synonyms) or a document feeding BOTH thesauri (either field order), at least one synonym document; both build tags; in-memory and persisted+re-opened. Oracle: thesaurus keys ascending == defined terms, Contains agrees, and for every (thesaurus in {s1,s2,absent,ordinary field,_id}, term in {a,b,c,absent,empty}, EVERY exclusion bitmap) the (synonym, doc) pairs == reference, each once; plus every ordered pair of lookups over 3 thesaurus names x 4 terms where the second lookup is handed the first one's SynonymsList and SynonymsIterator as preallocation (after 0 / 1 / all Next calls), with and without exclusion on either lookup, and the variant in which only the iterator is handed on while the first list stays in use and is read again afterwards; synonym fields have empty ordinary dictionaries and ordinary fields are unaffected (full postings/stored dump). Non-trivial = >= 2 synonym documents.",
		Assumptions: batchAssumptions,
		Bounds:      map[string]string{"quick": "N<=2 over all 25 document kinds, N=3 over a 20-kind sub-menu, all exclusion bitmaps", "thorough": "N<=3 over all 25 kinds plus N=4 over a 9-kind menu"},
		Flavours:    plainAndVec,
		New:         func() interface{} { return &enum.SynCase{} },
		Gen: func(tier string, emit func(interface{})) {
			enum.SynBatches(tier, func(c enum.SynCase) { emit(c) })
		},
		Run: func(ci interface{}, a *run.Acc) {
			c := *ci.(*enum.SynCase)
			b := c.Batch()
			exp := ref.FromBatch(b)
			seg, _, err := zx.Build(b, c.Mode)
			if err != nil {
				a.Violation("build-error", err.Error()+"\n"+jsonStr(b))
				return
			}
			defer seg.Close()
			if c.NumSynDocs() >= 2 {
				a.NonTrivial(c.Key())
			}
			opened, path, err := zx.PersistOpen(seg)
			if err != nil {
				a.Violation("persist-error", err.Error()+"\n"+jsonStr(b))
				return
			}
			defer zx.Remove(path)
			defer opened.Close()
			for _, t := range []struct {
				name string
				s    segment.Segment
			}{{"in-memory", seg}, {"re-opened", opened}} {
				got, err := dump.Segment(t.s, dump.UniverseOf(exp))
				if err != nil {
					a.Violation("read-error", t.name+": "+err.Error()+"\n"+jsonStr(b))
					return
				}
				if d := zx.Compare(exp, got, ref.All); d != "" {
					a.Violation("content-mismatch", t.name+":\n"+d+jsonStr(b))
					return
				}
				if msg := checkThesauri(t.s, exp, a, t.name); msg != "" {
					a.Violation("synonyms-mismatch", msg+"\n"+jsonStr(b))
					return
				}
			}
			a.Outcome(fmt.Sprintf("ok/syndocs=%d", c.NumSynDocs()))
		},
	})
}
