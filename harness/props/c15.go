//go:build vectors

package props

import (
	"verif/enum"
	"verif/run"
)

func vecBounds(tier string) mergeBounds {
	if tier == "quick" {
		return mergeBounds{maxLen1: 3, triples: []int{0, 1, 6}, modes: []uint32{1026}, depth2: true, d2Menu: []int{1, 6}, fullDrops: true}
	}
	return mergeBounds{maxLen1: 3, modes: []uint32{1026}, depth2: true, d2Menu: []int{0, 1, 2, 3, 4, 5, 6, 7}, depth3: true, fullDrops: true}
}

// genVecBigMerges: merges whose surviving vector count of field v is 999..1002 and
// 1500 - on both sides of the exact/clustered class boundary (1000), reached through
// inputs and through drops, inputs in memory and re-opened, incl. a second merge of a
// result sitting exactly at the boundary.
func genVecBigMerges(tier string, emit func(enum.MergeCase)) {
	mk := func(ins []enum.Expr, drops [][]int) enum.Expr {
		ok := make([]bool, len(ins))
		for i := range drops {
			ok[i] = drops[i] != nil
		}
		return enum.Expr{In: ins, Drops: drops, DropOK: ok}
	}
	for _, opened := range []bool{false, true} {
		L := func(i int) enum.Expr { return enum.L(i, opened) }
		at := mk([]enum.Expr{L(0), L(1)}, [][]int{nil, nil}) // exactly 1000
		es := []enum.Expr{
			at,
			mk([]enum.Expr{L(1), L(0)}, [][]int{{7}, nil}),            // 999
			mk([]enum.Expr{L(0), L(1), L(3)}, [][]int{nil, {0}, nil}), // 1001
			mk([]enum.Expr{L(0), L(3), L(1)}, [][]int{nil, nil, nil}), // 1002
			mk([]enum.Expr{L(2)}, [][]int{{1000}}),                    // 1001 - 1 = 1000
			mk([]enum.Expr{L(2)}, [][]int{{0, 500}}),                  // 999: clustered input -> exact class
			mk([]enum.Expr{L(2), L(0)}, [][]int{nil, {}}),             // 1501
			mk([]enum.Expr{at}, [][]int{{3}}),                         // second merge: 1000 -> 999
			mk([]enum.Expr{at, L(3)}, [][]int{{0, 999}, nil}),         // second merge: 998 + 2 = 1000
		}
		for _, e := range es {
			emit(enum.MergeCase{Menu: "vecbig", Mode: 1026, E: e})
		}
		if tier == "quick" {
			continue
		}
		for k := 0; k <= 4; k++ { // every survivor count 996..1000 of one pair, 1001-k of the single input
			var d []int
			for i := 0; i < k; i++ {
				d = append(d, i*41)
			}
			if k > 0 {
				emit(enum.MergeCase{Menu: "vecbig", Mode: 1026, E: mk([]enum.Expr{L(0), L(1)}, [][]int{d, nil})})
			}
			emit(enum.MergeCase{Menu: "vecbig", Mode: 1026, E: mk([]enum.Expr{L(2)}, [][]int{append([]int{}, d...)})})
		}
	}
}

func init() {
	run.Register(&run.Def{
		ID:          "C15",
		Level:       "model_checking",
		Rule:        "explicit-state exploration of the merge state space over a vector menu of 8 segment shapes (two vector fields in one segment; a segment with only the second vector field; two single-vector docs; a doc with two vectors + a doc without + a doc whose vector equals one of another segment; two field instances in one doc; a segment without the vector field; documents without any vector; empty batch), inputs in memory or re-opened; transitions = Merge(ordered list of <=3 states, EVERY drop vector, incl. inputs whose vectors are all deleted and a field all of whose vectors are deleted); distinct depth-1 states (canonical key incl. the reference's vector table) are merged again at depth 2 (3 in thorough). Oracle in every state (vectors tag, stand-in engine): Count/Fields; exact searches for every grid query and k in {1,10} on the merged segment == reference over the survivors under the new numbering; num_vectors statistic == surviving vectors and no statistic / empty search for a field without surviving vectors; engine live-object count 0 after the merged segment is closed. Plus a 'vecbig' family: merges whose surviving vector count is 999..1002 / 1501 - both sides of the exact/clustered class boundary at 1000 - reached through inputs and drops, in memory and re-opened, incl. second merges of a result sitting on the boundary (soundness oracle for >= 1000 vectors). Plus an 'alphabet' family reusing C14's BUILD alphabet as merge inputs: every batch of 1 and of 2 documents over the 9 vector cells (90 segments) merged alone under every non-empty drop vector and with every 1-document batch on either side. Non-trivial = merge with >= 1 survivor.",
		Assumptions: []string{"the vector engine is the pure-Go stand-in (DESIGN 3.4)", "deletion bitmaps only contain existing document numbers"},
		Bounds: map[string]string{
			"quick":    "lists <=2 over 8 items + triples over 3 items, every drop vector, depth 2 with 2 items",
			"thorough": "lists <=3 over 8 items, depth 2 with all items, depth 3",
		},
		New: func() interface{} { return &enum.MergeCase{} },
		Gen: func(tier string, emit func(interface{})) {
			genMerges("vec", vecBounds(tier), func(c enum.MergeCase) { emit(c) })
			genVecBigMerges(tier, func(c enum.MergeCase) { emit(c) })
			// the same segment object twice in one merge (KNOWN FINDING for vectors, see known_findings.txt)
			for _, i := range []int{0, 1, 2, 6} {
				for _, opened := range []bool{false, true} {
					emit(enum.MergeCase{Menu: "vec", Mode: 1026, Share: true, E: enum.Expr{In: []enum.Expr{enum.L(i, opened), enum.L(i, opened)}, Drops: [][]int{nil, nil}, DropOK: []bool{false, false}}})
				}
			}
			genAlphabetMerges("vecA", []int{0, 1, 2, 3, 4, 5, 6, 7, 8}, tier, func(c enum.MergeCase) { emit(c) })
		},
		Run: func(ci interface{}, a *run.Acc) {
			runMerge("C15")(ci, a)
			if live := engineLive(); live != 0 {
				c := ci.(*enum.MergeCase)
				a.Violation("engine-leak:"+mergeClass(enum.Menu(c.Menu), c.E), c.E.String()+": native engine objects still alive after every segment was closed")
			}
			if m := engineMisuse(); m != "" {
				c := ci.(*enum.MergeCase)
				a.Violation("engine-misuse:"+mergeClass(enum.Menu(c.Menu), c.E), c.E.String()+": "+m)
			}
		},
	})
}
