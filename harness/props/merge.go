package props

import (
	"fmt"
	"sort"
	"strings"

	segment "github.com/blevesearch/scorch_segment_api/v2"

	"verif/dump"
	"verif/enum"
	"verif/mx"
	"verif/ref"
	"verif/run"
	"verif/spec"
	"verif/zx"
)

// oneHitClasses predicts which (field, term) entries of a MERGED segment use the
// single-hit dictionary encoding: one surviving hit with frequency 1, no locations.
func oneHitClasses(c *ref.Content) string {
	var ks []string
	for f, terms := range c.Postings {
		for t, hits := range terms {
			if len(hits) == 1 && hits[0].Freq == 1 && len(hits[0].Locs) == 0 {
				ks = append(ks, fmt.Sprintf("%q/%q", f, t))
			}
		}
	}
	sort.Strings(ks)
	return strings.Join(ks, ",")
}

// observedOneHit reports the entries the implementation really encodes as single hits.
func observedOneHit(seg segment.Segment, c *ref.Content) string {
	var ks []string
	for f, terms := range c.Postings {
		d, err := seg.Dictionary(f)
		if err != nil {
			continue
		}
		for t := range terms {
			pl, err := d.PostingsList([]byte(t), nil, nil)
			if err != nil {
				continue
			}
			if o, ok := pl.Iterator(false, false, false, nil).(segment.OptimizablePostingsIterator); ok {
				if _, is := o.DocNum1Hit(); is {
					ks = append(ks, fmt.Sprintf("%q/%q", f, t))
				}
			}
		}
	}
	sort.Strings(ks)
	return strings.Join(ks, ",")
}

func stateKey(c *ref.Content, classes string, mode uint32, merged bool) string {
	return fmt.Sprintf("mode=%d merged=%v 1hit=[%s]\n%s", mode, merged, classes, c.Render(ref.AllVecs))
}

// emptyMergeKind: 0 = not a merge without survivors, 1 = merge without survivors
// over < 2 fields, 2 = over >= 2 fields.
func emptyMergeKind(menu []spec.Batch, e enum.Expr) int {
	if e.Leaf != 0 {
		return 0
	}
	r := mx.RefOf(menu, e)
	if r.Count != 0 {
		return 0
	}
	if len(r.Fields) >= 2 {
		return 2
	}
	return 1
}

func hasEmptyMergeInput(menu []spec.Batch, e enum.Expr) bool {
	for _, c := range e.In {
		if emptyMergeKind(menu, c) == 2 || hasEmptyMergeInput(menu, c) {
			return true
		}
	}
	return false
}

// mergeClass names the input class of a merge expression; it is the part of a
// violation signature that known_findings.txt entries are matched on.
func mergeClass(menu []spec.Batch, e enum.Expr) string {
	switch {
	case hasEmptyMergeInput(menu, e):
		return "input-is-result-of-merge-with-survivors=0,fields>=2"
	case emptyMergeKind(menu, e) == 2:
		return "merge-with-survivors=0,fields>=2"
	case emptyMergeKind(menu, e) == 1:
		return "merge-with-survivors=0,fields<2"
	}
	return "merge"
}

// mergeOracle checks the root merge of an evaluated expression. which selects
// the property: "C05" (renumbering, stored, ids, fields, size), "C06" (index +
// doc values), "C13" (thesauri), "C15" (vectors).
func mergeOracle(which string, ev *mx.Evald, a *run.Acc) (kind, msg string) {
	exp := ev.Exp
	switch which {
	case "C05":
		if m := zx.CheckMaps(ev.ExpMap, ev.Maps); m != "" {
			return "maps", m
		}
		if fs := zx.FileSize(ev.Path); fs != int64(ev.Size) {
			return "size", fmt.Sprintf("Merge reported %d bytes, file has %d", ev.Size, fs)
		}
	}
	got, err := dump.Segment(ev.Seg, dump.UniverseOf(exp))
	a.Eval(1)
	if err != nil {
		return "read", err.Error()
	}
	var sec ref.Sections
	switch which {
	case "C05":
		sec = ref.Sections{Meta: true, Stored: true}
	case "C06":
		// The list of visitable doc-value fields of a MERGED segment is only bounded by
		// the properties (C03 defines it for indexed batches): it must contain every field
		// in which a survivor has doc-value terms and nothing outside the inputs' lists.
		sec = ref.Sections{Postings: true, DV: true, NoDVList: true}
		inList := map[string]bool{}
		for _, f := range got.DVFields {
			inList[f] = true
		}
		upper := map[string]bool{}
		for _, f := range exp.DVFields {
			upper[f] = true
		}
		for f, docs := range exp.DV {
			if len(docs) > 0 && !inList[f] {
				return "dvlist", fmt.Sprintf("field %q has doc values of surviving documents but is not listed by VisitableDocValueFields %q", f, got.DVFields)
			}
		}
		for _, f := range got.DVFields {
			if !upper[f] {
				return "dvlist", fmt.Sprintf("VisitableDocValueFields lists %q, which no input indexed with doc values (inputs: %q)", f, exp.DVFields)
			}
		}
	case "C13":
		sec = ref.Sections{Thes: true, Postings: true}
	case "C15":
		sec = ref.Sections{Meta: true}
	}
	if d := zx.Compare(exp, got, sec); d != "" {
		return "content", d
	}
	switch which {
	case "C05":
		// DocNumbers on the merged segment
		byID := map[string][]uint32{}
		for d, sv := range exp.Stored {
			id := string(sv[0].Val)
			byID[id] = append(byID[id], uint32(d))
		}
		ids := []string{"", "zz", "p"}
		for id := range byID {
			ids = append(ids, id)
		}
		sort.Strings(ids)
		for _, probe := range append([][]string{ids}, singles(ids)...) {
			var want []uint32
			for _, id := range probe {
				want = append(want, byID[id]...)
			}
			sort.Slice(want, func(i, j int) bool { return want[i] < want[j] })
			bm, err := ev.Seg.DocNumbers(probe)
			if err != nil {
				return "docnumbers", fmt.Sprintf("DocNumbers(%q): %v", probe, err)
			}
			if g := bm.ToArray(); fmt.Sprint(g) != fmt.Sprint(want) && !(len(g) == 0 && len(want) == 0) {
				return "docnumbers", fmt.Sprintf("DocNumbers(%q) = %v, want %v", probe, g, want)
			}
		}
	case "C13":
		if m := checkThesauri(ev.Seg, exp, a, "merged"); m != "" {
			return "synonyms", m
		}
	case "C15":
		if m := vecMergeOracle(ev.Seg, exp); m != "" {
			return "vectors", m
		}
	}
	return "", ""
}

func singles(ids []string) [][]string {
	var rv [][]string
	for _, id := range ids {
		rv = append(rv, []string{id})
	}
	return rv
}

func runMerge(which string) func(ci interface{}, a *run.Acc) {
	return func(ci interface{}, a *run.Acc) {
		c := *ci.(*enum.MergeCase)
		menu := enum.Menu(c.Menu)
		// vector ids carry 31 random bits: seed once per case (replayable), never per
		// build, so that two builds inside one case do not get colliding ids
		prepareVecBatch(nil)
		var leaves *mx.Leaves
		if c.Share {
			leaves = mx.NewLeaves()
			defer leaves.Close()
		}
		if c.Pre != nil {
			// an earlier merge on the same leaf objects: it must be right itself, and it must
			// not leave anything in its inputs that changes what the second merge produces
			leaves = mx.NewLeaves()
			defer leaves.Close()
			pre, err := mx.EvalExprShared(menu, *c.Pre, c.Mode, leaves)
			if err != nil {
				pre.Close()
				a.Violation("error:"+mergeClass(menu, *c.Pre), fmt.Sprintf("first merge %s (chunk mode %d): %v", c.Pre, c.Mode, err))
				return
			}
			kind, msg := mergeOracle(which, pre, a)
			pre.Close()
			if kind != "" {
				a.Violation(kind+":"+mergeClass(menu, *c.Pre), fmt.Sprintf("first merge %s (chunk mode %d):\n%s", c.Pre, c.Mode, msg))
				return
			}
		}
		ev, err := mx.EvalExprShared(menu, c.E, c.Mode, leaves)
		defer ev.Close()
		a.Trace(1)
		a.Transition(1)
		class := mergeClass(menu, c.E)
		if err != nil {
			a.Violation("error:"+class, fmt.Sprintf("%s (chunk mode %d): %v", c.E, c.Mode, err))
			a.Outcome("violation")
			return
		}
		if ev.Exp.Count > 0 {
			a.NonTrivial(c.E.String() + fmt.Sprint(c.Mode))
		}
		predicted := oneHitClasses(ev.Exp)
		observed := observedOneHit(ev.Seg, ev.Exp)
		if predicted != observed {
			a.Count("onehit_prediction_mismatch", 1)
			a.Note("single-hit class prediction differs from the implementation for " + c.E.String() + ": predicted [" + predicted + "] observed [" + observed + "]")
		}
		a.State(stateKey(ev.Exp, observed, c.Mode, true))
		if kind, msg := mergeOracle(which, ev, a); kind != "" {
			if c.Pre != nil {
				msg = fmt.Sprintf("(the same input objects were first merged as %s)\n%s", c.Pre, msg)
			}
			if c.Share && which == "C15" && kind == "vectors" {
				// known finding: vector identity is the id stored in the input, so the second
				// copy of a segment overwrites the first one's entries
				kind = "vectors-of-a-segment-given-twice"
				msg = "(equal leaves are ONE segment object, given twice to this merge)\n" + msg
			}
			a.Violation(kind+":"+class, fmt.Sprintf("%s (chunk mode %d):\n%s", c.E, c.Mode, msg))
			a.Outcome("violation")
			return
		}
		if c.Menu == "fsets" {
			// the inputs of the merge are still segments of their own: reading them after the
			// merge gives what it gave before (a merge must not write to its inputs)
			for i, in := range ev.InSegs {
				got, err := dump.Segment(in, dump.UniverseOf(ev.InExps[i]))
				if err != nil {
					a.Violation("input-damaged:"+class, fmt.Sprintf("%s: input %d cannot be read after the merge: %v", c.E, i, err))
					return
				}
				if d := zx.Compare(ev.InExps[i], got, ref.All); d != "" {
					a.Violation("input-damaged:"+class, fmt.Sprintf("%s: input %d answers differently after the merge:\n%s", c.E, i, d))
					return
				}
			}
		}
		a.Outcome(fmt.Sprintf("ok/depth=%d/survivors=%d", c.E.Depth(), min(ev.Exp.Count, 3)))
	}
}

// ---------------------------------------------------------------------------
// generation of the merge state space

type mergeBounds struct {
	maxLen1   int      // list length at depth 1
	triples   []int    // menu subset for triples (nil = all)
	modes     []uint32 // chunk modes
	depth2    bool
	d2Modes   []uint32 // chunk modes for which depth 2 is explored (nil = all)
	d2Sources []int    // depth-2 sources: single-input merges of every item + pairs over this subset (nil = all pairs)
	lean      bool     // quick tier: one provenance pattern for triples, reduced drop alphabet for the menu item at depth 2
	d2Menu    []int    // menu items combined with depth-1 results at depth 2
	depth3    bool
	fullDrops bool
}

func genMerges(menuName string, b mergeBounds, emit func(enum.MergeCase)) {
	menu := enum.Menu(menuName)
	counts := make([]int, len(menu))
	for i, m := range menu {
		counts[i] = len(m.Docs)
	}
	inSub := func(l []int) bool {
		if len(l) < 3 || b.triples == nil {
			return true
		}
		for _, x := range l {
			ok := false
			for _, t := range b.triples {
				ok = ok || t == x
			}
			if !ok {
				return false
			}
		}
		return true
	}
	for _, mode := range b.modes {
		// ---- depth 1
		type st struct {
			e enum.Expr
			n int
		}
		var level1 []st
		seen := map[string]bool{}
		for l := 1; l <= b.maxLen1; l++ {
			if l >= 3 && len(b.modes) > 2 && mode != b.modes[0] && mode != b.modes[len(b.modes)-1] {
				continue // triples: first and last chunk mode only (lists <= 2 run in every mode)
			}
			enum.Product(l, len(menu), func(list []int) {
				if !inSub(list) {
					{
						// quick tier: every triple outside the sub-menu still runs once with nothing
						// dropped and once with the first document of every input dropped (field-list
						// combinations such as same / different / same only exist among triples)
						e := enum.Expr{Drops: make([][]int, len(list)), DropOK: make([]bool, len(list))}
						e2 := enum.Expr{Drops: make([][]int, len(list)), DropOK: make([]bool, len(list))}
						for i, x := range list {
							e.In = append(e.In, enum.L(x, i%2 == 1))
							e2.In = append(e2.In, enum.L(x, i%2 == 0))
							if counts[x] > 0 {
								e2.Drops[i], e2.DropOK[i] = []int{0}, true
							}
						}
						emit(enum.MergeCase{Menu: menuName, Mode: mode, E: e})
						emit(enum.MergeCase{Menu: menuName, Mode: mode, E: e2})
					}
					return
				}
				cs := make([]int, len(list))
				for i, x := range list {
					cs[i] = counts[x]
				}
				// provenance patterns: all in memory, all opened, alternating
				pats := [][]bool{make([]bool, l)}
				allOpen := make([]bool, l)
				alt := make([]bool, l)
				for i := range allOpen {
					allOpen[i] = true
					alt[i] = i%2 == 1
				}
				pats = append(pats, allOpen)
				if l >= 2 {
					pats = append(pats, alt)
				}
				if b.lean && l >= 3 {
					pats = pats[2:]
				}
				forDropsOf(cs, true, func(drops [][]int, ok []bool) {
					for pi, pat := range pats {
						e := enum.Expr{Drops: drops, DropOK: ok}
						for i, x := range list {
							e.In = append(e.In, enum.L(x, pat[i]))
						}
						emit(enum.MergeCase{Menu: menuName, Mode: mode, E: e})
						if pi == 0 && l <= 2 && b.depth2 && (l == 1 || b.d2Sources == nil || allIn(list, b.d2Sources)) {
							r := mx.RefOf(menu, e)
							k := stateKey(r, oneHitClasses(r), mode, true)
							if !seen[k] {
								seen[k] = true
								level1 = append(level1, st{e, r.Count})
							}
						}
					}
				})
			})
		}
		if !b.depth2 {
			continue
		}
		if b.d2Modes != nil {
			in := false
			for _, m := range b.d2Modes {
				in = in || m == mode
			}
			if !in {
				continue
			}
		}
		// ---- depth 2: one representative per distinct depth-1 state
		var level2 []st
		seen2 := map[string]bool{}
		for _, s := range level1 {
			try := func(ins []enum.Expr, cs []int) {
				forDropsOf(cs, b.fullDrops, func(drops [][]int, ok []bool) {
					if b.lean && len(ins) == 2 {
						// reduced alphabet for the menu item: nil, first document, everything
						mi := 1
						if ins[0].Leaf != 0 {
							mi = 0
						}
						if n := len(drops[mi]); ok[mi] && !(n == cs[mi] || (n == 1 && drops[mi][0] == 0)) {
							return
						}
					}
					e := enum.Expr{In: ins, Drops: drops, DropOK: ok}
					emit(enum.MergeCase{Menu: menuName, Mode: mode, E: e})
					if b.depth3 && len(ins) == 1 {
						r := mx.RefOf(menu, e)
						k := stateKey(r, oneHitClasses(r), mode, true)
						if !seen2[k] && !seen[k] {
							seen2[k] = true
							level2 = append(level2, st{e, r.Count})
						}
					}
				})
			}
			try([]enum.Expr{s.e}, []int{s.n})
			for _, mi := range b.d2Menu {
				try([]enum.Expr{s.e, enum.L(mi, false)}, []int{s.n, counts[mi]})
				try([]enum.Expr{enum.L(mi, true), s.e}, []int{counts[mi], s.n})
			}
		}
		if !b.depth3 {
			continue
		}
		for _, s := range level2 {
			forDropsOf([]int{s.n}, false, func(drops [][]int, ok []bool) {
				emit(enum.MergeCase{Menu: menuName, Mode: mode, E: enum.Expr{In: []enum.Expr{s.e}, Drops: drops, DropOK: ok}})
			})
			forDropsOf([]int{s.n, s.n}, false, func(drops [][]int, ok []bool) {
				if len(drops[0]) > 1 || len(drops[1]) > 1 {
					return
				}
				emit(enum.MergeCase{Menu: menuName, Mode: mode, E: enum.Expr{In: []enum.Expr{s.e, s.e}, Drops: drops, DropOK: ok}})
			})
		}
	}
}

func allIn(list, set []int) bool {
	for _, x := range list {
		in := false
		for _, y := range set {
			in = in || x == y
		}
		if !in {
			return false
		}
	}
	return true
}

func forDropsOf(counts []int, full bool, f func(drops [][]int, ok []bool)) {
	enum.ForDrops(counts, full, f)
}

func textBounds(tier string) mergeBounds {
	if tier == "quick" {
		return mergeBounds{maxLen1: 3, triples: []int{1, 3, 9}, modes: []uint32{1, 1026}, depth2: true, d2Modes: []uint32{1}, d2Sources: []int{1, 3, 9}, d2Menu: []int{9}, fullDrops: false, lean: true}
	}
	return mergeBounds{maxLen1: 3, triples: nil, modes: []uint32{1, 2, 1024, 1026}, depth2: true, d2Menu: []int{0, 1, 2, 3, 4, 5, 6, 7, 8, 9}, depth3: true, fullDrops: false}
}

var mergeRule = "explicit-state exploration of the merge state space on the real code: states = segments reachable from a 10-item segment menu (frequencies / lengths / location values at varint boundaries; a gap between stored fields and seven array-positioned stored values in one document; a frequency-0 term with locations in two documents and a doc-value field without tokens; empty batch; single doc with a single-hit-eligible term; two 2-doc batches with identical field lists (byte-copy paths); overlapping field list with a composite field whose locations name other fields; disjoint field list with long array positions and the empty term; 3-doc batch with a field-less document and an id shared with another item), each input built in memory or persisted+re-opened; transitions = Merge(ordered list of <=3 states, one drop bitmap per input) for EVERY drop vector over {nil, empty, every subset} at depth 1, and {nil, empty, singletons, complements, all} for inputs with >3 documents at depth >= 2; chunk modes as bounded. Depth-1 results are deduplicated by canonical state key (semantic dump + per-term single-hit encoding class + chunk mode) computed from the reference model and cross-checked against the key observed on the implementation; each distinct state is merged again (alone, with menu items on either side) at depth 2 (and once more at depth 3 in thorough). A successor is computed by replaying the whole expression on fresh objects. Plus a 'big' family: merges of 600..1030-document segments (a one-document segment lacking the term; two 700-document segments whose every document has the empty term) whose surviving cardinality of a term crosses 1024 - the boundary of the cardinality-dependent chunk-size rules - through inputs and drops, in both input orders, in memory and re-opened, chunk modes 1024/1025/1026, incl. a second merge of a result sitting at the boundary. Plus a 'pairs' family that reuses the BUILD alphabets as merge inputs: every ordered pair of single-document batches of the 12-entry cell menu over two fields (C06: 144 x 144 pairs; quick: a third of them) resp. of the 10-entry stored-field menu (C05: 100 x 100 pairs) is merged, and for a reduced sub-menu also with re-opened inputs, with either input dropped, and merged a second time with a third document. Plus a 'field sets' family: 16 single-document segments, one per subset of the field names {a,b,c,d}; every segment alone and with the `_id`-only one with every document dropped (nothing survives: the field list must), every ordered pair (nothing dropped, either document dropped, in memory and re-opened) and every ordered triple (nothing dropped; middle document dropped) is merged - every combination of equal / prefix / disjoint / interleaved field lists - and after each of these merges every INPUT is dumped again and must still equal its own reference. Plus a 're-merge' family: the same segment OBJECT is used as input of two merges in a row with different partners (field-set menu: every (A,B) followed by (A,C) and by (C,A); text menu: every (X,Y) followed by (X,Z) and (Z,X) over a sub-menu); both merges must be right. Plus (C06) a 'cols' family: every 3-document segment whose documents draw one field from the 12-entry cell menu (1727 segments) is merged alone under every non-empty drop vector (chunk mode 1026; mode 2 and re-opened inputs for the reduced menu, for all in thorough), so that a term's hits lose their first, a middle or their last member for every combination of hit shapes. Non-trivial = merge with >= 1 survivor."

func init() {
	for _, which := range []string{"C05", "C06"} {
		which := which
		run.Register(&run.Def{
			ID:          which,
			Level:       "model_checking",
			Rule:        mergeRule,
			Assumptions: append([]string{"deletion bitmaps only contain existing document numbers; merges write to fresh paths (C17 covers a destination that already holds a file)", "state-key deduplication merges states that differ only in the byte order of independent sections (Go map order), which no reader or merger consults"}, batchAssumptions...),
			Bounds: map[string]string{
				"quick":    "depth 1: all lists of length <=2 over 10 items (3 provenance patterns) + triples over {M1,M3,M9} (alternating provenance), every drop vector, chunk modes {1,1026}; depth 2: every distinct state reached by a single-input merge or by a pair over {M1,M3,M9}, merged alone and with M9 on either side (chunk mode 1), reduced drop alphabet",
				"thorough": "depth 1: all lists of length <=2 over 10 items in chunk modes {1,2,1024,1026} and all triples in modes {1,1026}, every drop vector; depth 2 with all 10 items; depth 3 for distinct depth-2 single-input states",
			},
			New: func() interface{} { return &enum.MergeCase{} },
			Gen: func(tier string, emit func(interface{})) {
				genMerges("text", textBounds(tier), func(c enum.MergeCase) { emit(c) })
				genBigMerges(tier, func(c enum.MergeCase) { emit(c) })
				genFieldSetMerges(tier, func(c enum.MergeCase) { emit(c) })
				genRemerges(tier, func(c enum.MergeCase) { emit(c) })
				if which == "C06" {
					genPairMerges("cells1", tier, func(c enum.MergeCase) { emit(c) })
					genColMerges(tier, func(c enum.MergeCase) { emit(c) })
				} else {
					genPairMerges("stored1", tier, func(c enum.MergeCase) { emit(c) })
				}
			},
			Run: runMerge(which),
		})
	}
}

// synPartners: the 1-document items every item of the synonym alphabet is merged with
// (quick: one per shape class; thorough: all kinds).
func synPartners(tier string) []int {
	if tier == "quick" {
		return []int{0, 1, 4, 6, 9, 15, 17, 19, 21, 22, 23}
	}
	var all []int
	for k := 0; k < enum.NumSynDocKinds; k++ {
		all = append(all, k)
	}
	return all
}

func synBounds(tier string) mergeBounds {
	if tier == "quick" {
		return mergeBounds{maxLen1: 3, triples: []int{0, 1, 3}, modes: []uint32{1026}, depth2: true, d2Menu: []int{1}, fullDrops: true}
	}
	return mergeBounds{maxLen1: 3, modes: []uint32{1, 1026}, depth2: true, d2Menu: []int{0, 1, 2, 3, 4, 5, 6}, depth3: true, fullDrops: true}
}

func init() {
	run.Register(&run.Def{
		ID:          "C13",
		Level:       "model_checking",
		Rule:        "explicit-state exploration of the merge state space restricted to a synonym menu of 7 segment shapes (three-term thesauri; same synonyms with different internal ids in different inputs; a term defined in several segments; a thesaurus present in only one input; two definers of one term; a segment without synonyms; an empty batch), inputs in memory or re-opened; transitions = Merge(ordered list of <=3 states, EVERY drop vector incl. all definers of a term / all documents of a thesaurus deleted); distinct depth-1 states (canonical key from the reference model) are merged again at depth 2 (and 3 in thorough). Oracle in every state: for every (thesaurus, term, exclusion bitmap) the (synonym, doc) pairs == reference of the survivors under the new numbering, terms without survivors absent, ordinary dictionaries unaffected. Plus an 'alphabet' family that reuses C12's BUILD alphabet as merge inputs: every batch of 1 and of 2 documents over the 22 document kinds (506 segments) merged alone under every non-empty drop vector (in memory and re-opened) and merged with 1-document batches on either side (quick: 9 partner kinds, one per shape class, and a third of the pairs; thorough: all), nothing dropped / its first document dropped. Non-trivial = merge with >= 1 survivor.",
		Assumptions: batchAssumptions,
		Bounds: map[string]string{
			"quick":    "lists <=2 over 6 items + triples over 3 items, every drop vector, depth 2 with 1 item",
			"thorough": "lists <=3 over 6 items, chunk modes {1,1026}, depth 2 with all items, depth 3",
		},
		New: func() interface{} { return &enum.MergeCase{} },
		Gen: func(tier string, emit func(interface{})) {
			genMerges("syn", synBounds(tier), func(c enum.MergeCase) { emit(c) })
			genAlphabetMerges("synA", synPartners(tier), tier, func(c enum.MergeCase) { emit(c) })
		},
		Run: runMerge("C13"),
	})
}

// genBigMerges: merges in which the surviving cardinality of a term crosses 1024
// (chunk-size rule boundary) through the combination of inputs and drops.
func genBigMerges(tier string, emit func(enum.MergeCase)) {
	first := func(k int) []int {
		d := make([]int, k)
		for i := range d {
			d[i] = i * 3 % 601 // spread, distinct for k <= 200
		}
		seen := map[int]bool{}
		out := d[:0]
		for _, x := range d {
			if !seen[x] {
				seen[x] = true
				out = append(out, x)
			}
		}
		return out
	}
	mk := func(ins []enum.Expr, drops [][]int) enum.Expr {
		ok := make([]bool, len(ins))
		for i := range drops {
			ok[i] = drops[i] != nil
		}
		return enum.Expr{In: ins, Drops: drops, DropOK: ok}
	}
	modes := []uint32{1025, 1026, 1024}
	for _, mode := range modes {
		for _, opened := range []bool{false, true} {
			L := func(i int) enum.Expr { return enum.L(i, opened) }
			var es []enum.Expr
			for _, k := range []int{0, 5, 6, 7, 10} { // 1030-k survivors: crosses 1024 between k=6 and k=7
				es = append(es, mk([]enum.Expr{L(0), L(1)}, [][]int{nil, first(k)}))
				es = append(es, mk([]enum.Expr{L(1), L(0)}, [][]int{first(k), nil}))
				es = append(es, mk([]enum.Expr{L(1)}, [][]int{first(k)}))
			}
			for _, k := range []int{0, 175, 176, 177} { // 1200-k survivors
				es = append(es, mk([]enum.Expr{L(2), L(2)}, [][]int{first(k), nil}))
				es = append(es, mk([]enum.Expr{L(0), L(2), L(2)}, [][]int{nil, nil, first(k)}))
			}
			for _, k := range []int{0, 3, 4} { // 1020 + 600 - ... and 1020+1 doc without x
				es = append(es, mk([]enum.Expr{L(3), L(0)}, [][]int{first(k), {}}))
				es = append(es, mk([]enum.Expr{L(0), L(3), L(0)}, [][]int{{0}, first(k), nil}))
			}
			// the empty term (first key of a dictionary) in segments whose merge has > 1024 documents
			es = append(es, mk([]enum.Expr{L(4), L(5)}, [][]int{nil, nil}), mk([]enum.Expr{L(4), L(5)}, [][]int{first(3), {}}),
				mk([]enum.Expr{L(0), L(4), L(5)}, [][]int{nil, nil, first(2)}), mk([]enum.Expr{L(4), L(1)}, [][]int{nil, first(7)}))
			// a second merge of a result that sits exactly at the boundary
			at := mk([]enum.Expr{L(0), L(1)}, [][]int{nil, first(6)})
			es = append(es, mk([]enum.Expr{at}, [][]int{first(1)}), mk([]enum.Expr{at, L(0)}, [][]int{nil, nil}))
			for _, e := range es {
				emit(enum.MergeCase{Menu: "big", Mode: mode, E: e})
			}
			if tier == "quick" && mode == 1024 {
				break
			}
		}
	}
}

// genColMerges: every 3-document segment over the cell menu (cols3) merged alone under
// EVERY drop vector: a term's hits in one segment (one chunk under mode 1026; chunks of
// two documents under mode 2) lose their first, a middle or their last member, for every
// combination of frequency / norm / location shapes of the kept and the skipped hits.
func genColMerges(tier string, emit func(enum.MergeCase)) {
	n := len(enum.Menu("cols3"))
	red := map[int]bool{}
	for _, c := range enum.ReducedCells {
		red[c] = true
	}
	for i := 0; i < n; i++ {
		c0, c1, c2 := i/(enum.NumCells*enum.NumCells), i/enum.NumCells%enum.NumCells, i%enum.NumCells
		if c0 == 0 && c1 == 0 && c2 == 0 {
			continue
		}
		reduced := red[c0] && red[c1] && red[c2]
		modes := []uint32{1026}
		if reduced || tier == "thorough" {
			modes = []uint32{1026, 2}
		}
		for _, mode := range modes {
			for _, opened := range []bool{false, true} {
				if opened && !(reduced && mode == 1026) && tier == "quick" {
					continue
				}
				enum.ForDrops([]int{3}, true, func(drops [][]int, ok []bool) {
					if !ok[0] || len(drops[0]) == 0 {
						return // nothing dropped: the pairs family covers plain copies
					}
					emit(enum.MergeCase{Menu: "cols3", Mode: mode, E: enum.Expr{In: []enum.Expr{enum.L(i, opened)},
						Drops: [][]int{append([]int{}, drops[0]...)}, DropOK: []bool{true}}})
				})
			}
		}
	}
}

// genAlphabetMerges: a build alphabet (menu = all 1-document batches, then all 2-document
// batches over `kinds` document kinds) reused as merge inputs: every item alone under
// every non-empty drop vector, and every item merged with every 1-document item on
// either side, with nothing dropped and with the item's first document dropped (quick: a
// third of the 2-document items per partner), in memory and - for the single-input
// merges - re-opened.
func genAlphabetMerges(menuName string, partners []int, tier string, emit func(enum.MergeCase)) {
	menu := enum.Menu(menuName)
	for i, b := range menu {
		n := len(b.Docs)
		for _, opened := range []bool{false, true} {
			enum.ForDrops([]int{n}, true, func(drops [][]int, ok []bool) {
				if !ok[0] || len(drops[0]) == 0 {
					return
				}
				emit(enum.MergeCase{Menu: menuName, Mode: 1026, E: enum.Expr{In: []enum.Expr{enum.L(i, opened)},
					Drops: [][]int{append([]int{}, drops[0]...)}, DropOK: []bool{true}}})
			})
		}
		for _, j := range partners {
			if tier == "quick" && n == 2 && (i+j)%3 != 0 {
				continue
			}
			for _, dropFirst := range []bool{false, true} {
				var d []int
				if dropFirst {
					d = []int{0}
				}
				emit(enum.MergeCase{Menu: menuName, Mode: 1026, E: enum.Expr{In: []enum.Expr{enum.L(i, false), enum.L(j, dropFirst)},
					Drops: [][]int{d, nil}, DropOK: []bool{dropFirst, false}}})
				emit(enum.MergeCase{Menu: menuName, Mode: 1026, E: enum.Expr{In: []enum.Expr{enum.L(j, false), enum.L(i, !dropFirst)},
					Drops: [][]int{nil, d}, DropOK: []bool{false, dropFirst}}})
			}
		}
	}
}

// genFieldSetMerges: every ordered pair and triple of the 16 field-set segments (fsets),
// nothing dropped; pairs also with either document dropped, triples also with the middle
// document dropped (a dropped input still contributes its fields); inputs in memory, and
// re-opened for the pairs.
func genFieldSetMerges(tier string, emit func(enum.MergeCase)) {
	n := len(enum.Menu("fsets"))
	mk := func(ins []enum.Expr, drops [][]int) enum.Expr {
		ok := make([]bool, len(ins))
		for i := range drops {
			ok[i] = drops[i] != nil
		}
		return enum.Expr{In: ins, Drops: drops, DropOK: ok}
	}
	for i := 0; i < n; i++ {
		// alone, its only document dropped: nothing survives, the field list must
		emit(enum.MergeCase{Menu: "fsets", Mode: 1026, E: mk([]enum.Expr{enum.L(i, false)}, [][]int{{0}})})
		emit(enum.MergeCase{Menu: "fsets", Mode: 1026, E: mk([]enum.Expr{enum.L(i, true), enum.L(0, false)}, [][]int{{0}, {0}})})
		for j := 0; j < n; j++ {
			emit(enum.MergeCase{Menu: "fsets", Mode: 1026, E: mk([]enum.Expr{enum.L(i, false), enum.L(j, false)}, [][]int{nil, nil})})
			emit(enum.MergeCase{Menu: "fsets", Mode: 1026, E: mk([]enum.Expr{enum.L(i, true), enum.L(j, true)}, [][]int{{}, nil})})
			emit(enum.MergeCase{Menu: "fsets", Mode: 1026, E: mk([]enum.Expr{enum.L(i, false), enum.L(j, true)}, [][]int{{0}, nil})})
			emit(enum.MergeCase{Menu: "fsets", Mode: 1026, E: mk([]enum.Expr{enum.L(i, true), enum.L(j, false)}, [][]int{nil, {0}})})
			for k := 0; k < n; k++ {
				emit(enum.MergeCase{Menu: "fsets", Mode: 1026, E: mk([]enum.Expr{enum.L(i, false), enum.L(j, false), enum.L(k, false)}, [][]int{nil, nil, nil})})
				if tier == "thorough" || (i+j+k)%2 == 0 {
					emit(enum.MergeCase{Menu: "fsets", Mode: 1026, E: mk([]enum.Expr{enum.L(i, false), enum.L(j, true), enum.L(k, false)}, [][]int{nil, {0}, {}})})
				}
			}
		}
	}
}

// genRemerges: a segment OBJECT used as input of two merges in a row with different
// partners (a merge may initialise caches in its inputs, it must not remember anything about
// the merge): over the field-set menu every (A,B) followed by (A,C) and by (C,A) on the same
// A; over the text menu every (X,Y) followed by (X,Z) for X,Y,Z in a sub-menu.
func genRemerges(tier string, emit func(enum.MergeCase)) {
	mk := func(ins []enum.Expr, drops [][]int) *enum.Expr {
		ok := make([]bool, len(ins))
		for i := range drops {
			ok[i] = drops[i] != nil
		}
		return &enum.Expr{In: ins, Drops: drops, DropOK: ok}
	}
	n := len(enum.Menu("fsets"))
	for i := 1; i < n; i++ {
		for j := 0; j < n; j++ {
			for k := 0; k < n; k++ {
				if j == k {
					continue
				}
				if tier == "quick" && (i+j+k)%2 == 1 {
					continue
				}
				opened := (i+j)%2 == 1
				pre := mk([]enum.Expr{enum.L(i, opened), enum.L(j, false)}, [][]int{nil, nil})
				emit(enum.MergeCase{Menu: "fsets", Mode: 1026, Pre: pre, E: *mk([]enum.Expr{enum.L(i, opened), enum.L(k, false)}, [][]int{nil, nil})})
				emit(enum.MergeCase{Menu: "fsets", Mode: 1026, Pre: pre, E: *mk([]enum.Expr{enum.L(k, false), enum.L(i, opened)}, [][]int{nil, {}})})
			}
		}
	}
	sub := []int{1, 2, 3, 4, 5, 8, 9}
	if tier == "thorough" {
		sub = []int{0, 1, 2, 3, 4, 5, 6, 7, 8, 9}
	}
	for _, x := range sub {
		for _, y := range sub {
			for _, z := range sub {
				if y == z {
					continue
				}
				pre := mk([]enum.Expr{enum.L(x, false), enum.L(y, true)}, [][]int{nil, nil})
				emit(enum.MergeCase{Menu: "text", Mode: 1026, Pre: pre, E: *mk([]enum.Expr{enum.L(x, false), enum.L(z, false)}, [][]int{nil, nil})})
				d := []int{0}
				if len(enum.Menu("text")[x].Docs) == 0 {
					d = []int{} // the empty batch has no document to drop
				}
				emit(enum.MergeCase{Menu: "text", Mode: 1, Pre: pre, E: *mk([]enum.Expr{enum.L(z, true), enum.L(x, false)}, [][]int{nil, d})})
			}
		}
	}
}

// genPairMerges: the build alphabets reused as merge inputs. Every ordered pair of
// single-document batches of the cell menu (cells1) / the stored-field menu (stored1) is
// merged (nothing dropped; for a reduced sub-menu also with either input dropped and with
// re-opened inputs), and the results over the reduced sub-menu are merged again with a
// third single-document batch.
func genPairMerges(menuName string, tier string, emit func(enum.MergeCase)) {
	n := len(enum.Menu(menuName))
	side := 12
	reduced := []int{1, 3, 5, 7, 8, 10, 11}
	if menuName == "stored1" {
		side = enum.NumStoredCells
		reduced = []int{2, 3, 5, 6, 8, 9}
	}
	idx := func(a, b int) int { return a*side + b }
	mk := func(ins []enum.Expr, drops [][]int) enum.Expr {
		ok := make([]bool, len(ins))
		for i := range drops {
			ok[i] = drops[i] != nil
		}
		return enum.Expr{In: ins, Drops: drops, DropOK: ok}
	}
	modes := []uint32{1026}
	if tier == "thorough" {
		modes = []uint32{1, 1026}
	}
	for _, mode := range modes {
		for i := 0; i < n; i++ {
			for j := 0; j < n; j++ {
				if tier == "quick" && (i+2*j)%3 != 0 && menuName == "cells1" {
					continue // quick: a third of the ordered pairs (every pair of SHAPES still meets: see reduced below)
				}
				emit(enum.MergeCase{Menu: menuName, Mode: mode, E: mk([]enum.Expr{enum.L(i, false), enum.L(j, false)}, [][]int{nil, nil})})
			}
		}
		// reduced sub-menu: both fields drawn from `reduced`
		var sub []int
		for _, a := range reduced {
			for _, b := range reduced {
				sub = append(sub, idx(a, b))
			}
		}
		for _, i := range sub {
			for _, j := range sub {
				pair := mk([]enum.Expr{enum.L(i, true), enum.L(j, false)}, [][]int{{}, nil})
				emit(enum.MergeCase{Menu: menuName, Mode: mode, E: pair})
				if tier == "quick" && (i+j)%4 != 0 {
					continue
				}
				emit(enum.MergeCase{Menu: menuName, Mode: mode, E: mk([]enum.Expr{enum.L(i, false), enum.L(j, true)}, [][]int{{0}, nil})})
				emit(enum.MergeCase{Menu: menuName, Mode: mode, E: mk([]enum.Expr{enum.L(i, false), enum.L(j, false)}, [][]int{nil, {0}})})
				// second merge: the pair's result with a third document, and alone with its first document dropped
				for _, k := range []int{sub[0], sub[len(sub)/2], sub[len(sub)-1]} {
					emit(enum.MergeCase{Menu: menuName, Mode: mode, E: mk([]enum.Expr{pair, enum.L(k, false)}, [][]int{nil, nil})})
					emit(enum.MergeCase{Menu: menuName, Mode: mode, E: mk([]enum.Expr{enum.L(k, false), pair}, [][]int{nil, {0}})})
				}
				emit(enum.MergeCase{Menu: menuName, Mode: mode, E: mk([]enum.Expr{pair}, [][]int{{0}})})
			}
		}
	}
}
