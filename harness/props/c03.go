package props

import (
	"fmt"
	"sort"
	"strings"

	segment "github.com/blevesearch/scorch_segment_api/v2"
	zap "github.com/blevesearch/zapx/v16"

	"verif/enum"
	"verif/ref"
	"verif/run"
	"verif/spec"
	"verif/zx"
)

// dvExpect returns the sorted terms the reference holds for (doc, field).
func dvExpect(c *ref.Content, field string, doc uint64) []string {
	if c.DV[field] == nil {
		return nil
	}
	return c.DV[field][doc]
}

// ffMarker prefixes the message of the known 0xff finding (turned into its own signature).
const ffMarker = "\x01FF\x01"

type dvTarget struct {
	name string
	seg  segment.Segment
	exp  *ref.Content
}

// visitOnce performs one VisitDocValues call and compares callbacks with the reference.
func visitOnce(t dvTarget, doc uint64, fields []string, st segment.DocVisitState) (segment.DocVisitState, string) {
	dv := t.seg.(segment.DocValueVisitable)
	got := map[string][]string{}
	st2, err := dv.VisitDocValues(doc, fields, func(field string, term []byte) {
		got[field] = append(got[field], string(term))
	}, st)
	if err != nil {
		return st2, fmt.Sprintf("VisitDocValues(%d,%q) on %s: error %v", doc, fields, t.name, err)
	}
	for _, f := range fields {
		g := got[f]
		sort.Strings(g)
		e := dvExpect(t.exp, f, doc)
		if strings.Join(g, "\x00") != strings.Join(e, "\x00") || len(g) != len(e) {
			// known finding: the doc-value encoding separates terms by the byte 0xff, so a term
			// that contains 0xff comes back as several terms. Recognised exactly: the callbacks
			// equal the reference with every term cut at 0xff.
			var split []string
			for _, t := range e {
				split = append(split, strings.Split(t, "\xff")...)
			}
			sort.Strings(split)
			if len(split) != len(e) && strings.Join(g, "\x00") == strings.Join(split, "\x00") {
				return st2, ffMarker + fmt.Sprintf("VisitDocValues(%d,%q) on %s: field %q callbacks %q, want %q (a term containing the byte 0xff is returned in pieces)", doc, fields, t.name, f, g, e)
			}
			return st2, fmt.Sprintf("VisitDocValues(%d,%q) on %s: field %q callbacks %q, want %q", doc, fields, t.name, f, g, e)
		}
		delete(got, f)
	}
	if len(got) != 0 {
		return st2, fmt.Sprintf("VisitDocValues(%d,%q) on %s: callbacks for fields not asked for: %v", doc, fields, t.name, got)
	}
	return st2, ""
}

func init() {
	run.Register(&run.Def{
		ID:          "C03",
		Level:       "exploration",
		Rule:        "bounded-exhaustive: every batch over a 10-entry per-document cell menu (field a: absent/{x}/{x,y}/{empty term}/present with doc values but no token; field b: absent/{x,z(freq 0)}; b with or without doc values) for N<=3 (quick) / N<=4 (thorough) x doc-value chunk size (LegacyChunkMode) in {1,2,3,1024} x segment in {in-memory, mmap-opened, merged-and-opened} x field list in {[a],[a,b],[b,a,zz]} x EVERY visiting sequence of documents (with repetition) of length <= L (4 quick / 5 thorough) x visit-state discipline in {fresh per call, one state threaded, one state alternated between this segment and a second segment with the same field list but different content, one state alternated between this segment and a segment whose fields are numbered differently and carry other doc-value flags}; plus N=7 batches with ascending/descending/zig-zag orders; plus batches of <= 2 documents with a term that contains the byte 0xff (KNOWN FINDING: the doc-value encoding separates terms by 0xff, such a term is returned in pieces - reported under its own signature only when the callbacks equal the reference cut at 0xff). Oracle per call: multiset of callbacks == reference terms of (doc, field), one callback per term; VisitableDocValueFields == dv-indexed fields. Non-trivial = batch with >= 2 documents carrying doc values.",
		Assumptions: append([]string{"doc-value terms contain no 0xff byte (bleve's term separator)"}, batchAssumptions...),
		Bounds:      map[string]string{"quick": "N<=3, sequences of length<=4, 3 segment kinds, 4 state disciplines", "thorough": "N<=4 (L=4 for N=4, L=5 below), same"},
		New:         func() interface{} { return &enum.DVCase{} },
		Gen: func(tier string, emit func(interface{})) {
			enum.DVBatches(tier, func(c enum.DVCase) { emit(c) })
			enum.FFBatches(func(c enum.DVCase) { emit(c) })
		},
		Run: runC03,
	})
}

func runC03(ci interface{}, a *run.Acc) {
	c := *ci.(*enum.DVCase)
	oldLegacy := zap.LegacyChunkMode
	zap.LegacyChunkMode = c.Legacy
	defer func() { zap.LegacyChunkMode = oldLegacy }()

	b := c.Batch()
	exp := ref.FromBatch(b)
	mem, _, err := zx.Build(b, 1026)
	if err != nil {
		a.Violation("build-error", err.Error()+"\n"+jsonStr(c))
		return
	}
	defer mem.Close()
	opened, p1, err := zx.PersistOpen(mem)
	if err != nil {
		a.Violation("persist-error", err.Error()+"\n"+jsonStr(c))
		return
	}
	defer zx.Remove(p1)
	defer opened.Close()
	mpath, _, _, err := zx.Merge([]segment.Segment{mem}, []*rbm{nil}, 1026)
	if err != nil {
		a.Violation("merge-error", err.Error()+"\n"+jsonStr(c))
		return
	}
	defer zx.Remove(mpath)
	merged, err := zx.Plugin.Open(mpath)
	if err != nil {
		a.Violation("open-error", err.Error()+"\n"+jsonStr(c))
		return
	}
	defer merged.Close()
	// second segment: same field list, different content (documents reversed)
	rb := c.Reversed()
	other, _, err := zx.Build(rb, 1026)
	if err != nil {
		a.Violation("build-error", err.Error()+"\n"+jsonStr(c))
		return
	}
	defer other.Close()
	otherT := dvTarget{"second-segment", other, ref.FromBatch(rb)}
	// third segment: ANOTHER field numbering and other doc-value flags (a field "0" with doc
	// values sorts before a; a has no doc values here; b has)
	ab := alienDVBatch()
	alien, _, err := zx.Build(ab, 1026)
	if err != nil {
		a.Violation("build-error", err.Error()+"\n"+jsonStr(c))
		return
	}
	defer alien.Close()
	alienT := dvTarget{"segment with another field numbering", alien, ref.FromBatch(ab)}

	ndv := 0
	for _, m := range exp.DV {
		ndv += len(m)
	}
	if ndv >= 2 {
		a.NonTrivial(c.Key())
	}

	targets := []dvTarget{{"in-memory", mem, exp}, {"mmap", opened, exp}, {"merged", merged, exp}}
	for _, t := range targets {
		dv := t.seg.(segment.DocValueVisitable)
		fs, err := dv.VisitableDocValueFields()
		if err != nil {
			a.Violation("dvfields-error", err.Error()+"\n"+jsonStr(c))
			return
		}
		got := append([]string(nil), fs...)
		sort.Strings(got)
		if t.name == "merged" {
			// for a MERGED segment the properties only bound the list (DESIGN 6b.2): every
			// field in which a document has doc-value terms is listed, nothing else than the
			// input's doc-value fields is
			in := map[string]bool{}
			for _, f := range got {
				in[f] = true
			}
			for f, docs := range exp.DV {
				if len(docs) > 0 && !in[f] {
					a.Violation("dvfields-mismatch", fmt.Sprintf("VisitableDocValueFields on %s = %q lacks %q, which has doc values\n%s", t.name, got, f, jsonStr(c)))
					return
				}
			}
			for _, f := range got {
				ok := false
				for _, e := range exp.DVFields {
					ok = ok || e == f
				}
				if !ok {
					a.Violation("dvfields-mismatch", fmt.Sprintf("VisitableDocValueFields on %s lists %q, which was not indexed with doc values (%q)\n%s", t.name, f, exp.DVFields, jsonStr(c)))
					return
				}
			}
			continue
		}
		if c.N > 0 && fmt.Sprint(got) != fmt.Sprint(exp.DVFields) && !(len(got) == 0 && len(exp.DVFields) == 0) {
			a.Violation("dvfields-mismatch", fmt.Sprintf("VisitableDocValueFields on %s = %q, want %q\n%s", t.name, got, exp.DVFields, jsonStr(c)))
			return
		}
	}
	fieldLists := [][]string{{"a"}, {"a", "b"}, {"b", "a", "zz"}}
	fail := func(msg string, seq []int, disc string, fl []string) {
		if strings.HasPrefix(msg, ffMarker) {
			a.Violation("dv-term-containing-0xff-returned-in-pieces", fmt.Sprintf("%s\n%s", strings.TrimPrefix(msg, ffMarker), jsonStr(c)))
			return
		}
		a.Violation("dv-mismatch", fmt.Sprintf("%s\nvisiting sequence %v, state discipline %s, fields %q, LegacyChunkMode %d\n%s", msg, seq, disc, fl, c.Legacy, jsonStr(c)))
	}
	runSeq := func(t dvTarget, fl []string, seq []int) bool {
		// discipline 1: fresh state per call
		for _, d := range seq {
			if _, msg := visitOnce(t, uint64(d), fl, nil); msg != "" {
				fail(msg, seq, "fresh", fl)
				return false
			}
		}
		// discipline 2: one state threaded through
		var st segment.DocVisitState
		for _, d := range seq {
			var msg string
			if st, msg = visitOnce(t, uint64(d), fl, st); msg != "" {
				fail(msg, seq, "threaded", fl)
				return false
			}
		}
		// discipline 3: state alternated with a second segment
		st = nil
		for i, d := range seq {
			var msg string
			if st, msg = visitOnce(t, uint64(d), fl, st); msg != "" {
				fail(msg, seq, "alternated", fl)
				return false
			}
			od := (d + i) % c.N
			if st, msg = visitOnce(otherT, uint64(od), fl, st); msg != "" {
				fail(msg, seq, "alternated(second segment)", fl)
				return false
			}
		}
		// discipline 4: state alternated with a segment whose fields are numbered differently
		st = nil
		fl4 := append(append([]string{}, fl...), "0")
		for i, d := range seq {
			var msg string
			if st, msg = visitOnce(t, uint64(d), fl4, st); msg != "" {
				fail(msg, seq, "alternated with another numbering", fl4)
				return false
			}
			if st, msg = visitOnce(alienT, uint64((d+i)%3), fl4, st); msg != "" {
				fail(msg, seq, "alternated with another numbering (that segment)", fl4)
				return false
			}
		}
		a.Eval(4)
		return true
	}
	if c.L == 0 {
		asc := []int{0, 1, 2, 3, 4, 5, 6}
		desc := []int{6, 5, 4, 3, 2, 1, 0}
		zig := []int{0, 6, 1, 5, 2, 4, 3, 3, 0}
		for _, t := range targets {
			for _, fl := range fieldLists {
				for _, seq := range [][]int{asc, desc, zig} {
					if !runSeq(t, fl, seq) {
						return
					}
				}
			}
		}
		a.Outcome("ok/orders")
		return
	}
	for _, t := range targets {
		for _, fl := range fieldLists {
			ok := true
			for l := 1; l <= c.L && ok; l++ {
				enum.Product(l, c.N, func(seq []int) {
					if ok {
						ok = runSeq(t, fl, seq)
					}
				})
			}
			if !ok {
				return
			}
		}
	}
	a.Outcome(fmt.Sprintf("ok/dvdocs=%d", min(ndv, 4)))
}

// alienDVBatch: three documents whose field list is {_id, 0, a, b}: "0" (doc values) takes
// the number a has in the case batches, a is indexed WITHOUT doc values, b with.
func alienDVBatch() spec.Batch {
	var b spec.Batch
	for d := 0; d < 3; d++ {
		b.Docs = append(b.Docs, spec.Doc{ID: fmt.Sprintf("al%d", d), Fields: []spec.Field{
			{Name: "0", Len: 2, DV: true, Toks: []spec.Tok{{Term: fmt.Sprintf("p%d", d), Freq: 1}, {Term: "q", Freq: 1}}},
			{Name: "a", Len: 1, Toks: []spec.Tok{{Term: "nodv", Freq: 1}}},
			{Name: "b", Len: 1, DV: true, Toks: []spec.Tok{{Term: fmt.Sprintf("m%d", d), Freq: 1}}},
		}})
	}
	return b
}
