package props

import (
	"bytes"
	"fmt"
	"io"
	"os"
	"path/filepath"
	"strings"

	"verif/dec16"
	"verif/dump"
	"verif/enum"
	"verif/mx"
	"verif/ref"
	"verif/run"
	"verif/zx"
)

// LayoutCase: a file written now and decoded independently, or a frozen file
// written by the pinned commit and read by the current code.
type LayoutCase struct {
	Kind   string          `json:"kind"` // batch | merge | corpus
	Batch  *enum.AnyBatch  `json:"batch,omitempty"`
	Merge  *enum.MergeCase `json:"merge,omitempty"`
	Corpus string          `json:"corpus,omitempty"`
}

var corpusDir = run.VerifDir + "/corpus"

// decodeAndCompare decodes file bytes with the independent decoder and compares.
func decodeAndCompare(b []byte, exp *ref.Content, mode uint32, merged bool) (kind, msg string) {
	res, err := dec16.Decode(b)
	if err != nil {
		return "undecodable", "the independent v16 decoder cannot decode the file: " + err.Error()
	}
	if res.ChunkMode != mode {
		return "chunk-mode", fmt.Sprintf("footer chunk mode %d, want %d", res.ChunkMode, mode)
	}
	sec := ref.All
	sec.NoDVList = merged
	if d := ref.Diff(exp.Render(sec), res.Content.Render(sec)); d != "" {
		return "decoded-content", "the file decodes (by the documented layout) to something else than went in:\n" + d
	}
	// vector framing: the id->doc table lists every vector of the reference
	for name, vf := range exp.Vecs {
		want := map[uint64]int{}
		for _, v := range vf.Vecs {
			want[uint64(v.Doc)]++
		}
		if fmt.Sprint(want) != fmt.Sprint(res.VecDocs[name]) {
			return "vector-table", fmt.Sprintf("vector field %q: id->doc table lists vectors per doc %v, want %v", name, res.VecDocs[name], want)
		}
	}
	for name := range res.VecDocs {
		if exp.Vecs[name] == nil {
			return "vector-table", fmt.Sprintf("vector section for field %q, which has no vectors", name)
		}
	}
	// everything else is fine: report a recognised deviation from the documented layout
	for _, d := range res.Deviations {
		if strings.Contains(d, dec16.ErrNoEntryCount.Error()) {
			return "thesaurus-without-entries-omits-entry-count", "not decodable from the documented layout alone: " + d
		}
		return "undocumented-layout", d
	}
	return "", ""
}

func runC09(ci interface{}, a *run.Acc) {
	c := *ci.(*LayoutCase)
	switch c.Kind {
	case "batch":
		b := c.Batch.Batch()
		exp := ref.FromBatch(b)
		prepareVec(*c.Batch)
		seg, _, err := zx.Build(b, c.Batch.Mode())
		if err != nil {
			a.Violation("build-error", err.Error()+"\n"+jsonStr(c))
			return
		}
		defer seg.Close()
		var buf bytes.Buffer
		if _, err := seg.(io.WriterTo).WriteTo(&buf); err != nil {
			a.Violation("writeto-error", err.Error())
			return
		}
		a.Eval(1)
		if len(b.Docs) > 0 {
			a.NonTrivial(c.Batch.Key())
		}
		if kind, msg := decodeAndCompare(buf.Bytes(), exp, c.Batch.Mode(), false); kind != "" {
			a.Violation(kind, msg+"\n"+jsonStr(c))
			return
		}
		a.Outcome("decoded/batch")
	case "merge":
		prepareVecBatch(nil)
		ev, err := mx.EvalExpr(enum.Menu(c.Merge.Menu), c.Merge.E, c.Merge.Mode)
		defer ev.Close()
		if err != nil {
			a.Violation("merge-error", fmt.Sprintf("%s: %v", c.Merge.E, err))
			return
		}
		b, err := os.ReadFile(ev.Path)
		if err != nil {
			a.Violation("merge-error", err.Error())
			return
		}
		a.Eval(1)
		if ev.Exp.Count > 0 {
			a.NonTrivial(c.Merge.E.String() + fmt.Sprint(c.Merge.Mode))
		}
		if kind, msg := decodeAndCompare(b, ev.Exp, c.Merge.Mode, true); kind != "" {
			a.Violation(kind, fmt.Sprintf("%s (chunk mode %d): %s", c.Merge.E, c.Merge.Mode, msg))
			return
		}
		a.Outcome(fmt.Sprintf("decoded/merge/depth=%d", c.Merge.E.Depth()))
	case "corpus":
		var item *enum.CorpusItem
		for _, it := range enum.CorpusItems() {
			if it.Name == c.Corpus {
				it := it
				item = &it
			}
		}
		if item == nil {
			a.Note("corpus item " + c.Corpus + " is not defined any more")
			return
		}
		path := filepath.Join(corpusDir, c.Corpus+".zap")
		frozen, err := os.ReadFile(filepath.Join(corpusDir, c.Corpus+".txt"))
		if err != nil {
			a.Note("corpus file missing: " + err.Error())
			a.Capped = true
			return
		}
		var exp *ref.Content
		merged := item.Merge != nil
		if merged {
			exp = mx.RefOf(enum.Menu(item.Merge.Menu), item.Merge.E)
		} else {
			exp = ref.FromBatch(item.Batch.Batch())
		}
		sec := ref.All
		sec.NoDVList = merged
		if exp.Render(sec) != string(frozen) {
			a.Note("harness drift: the reference of corpus item " + c.Corpus + " no longer renders to its frozen dump; the frozen dump is used")
		}
		o, err := zx.Plugin.Open(path)
		if err != nil {
			a.Violation("corpus-open", fmt.Sprintf("file %s written by the pinned release cannot be opened: %v", c.Corpus, err))
			return
		}
		defer o.Close()
		got, err := dump.Segment(o, dump.UniverseOf(exp))
		a.Eval(1)
		a.NonTrivial("corpus/" + c.Corpus)
		if err != nil {
			a.Violation("corpus-read", fmt.Sprintf("file %s written by the pinned release cannot be read: %v", c.Corpus, err))
			return
		}
		if d := ref.Diff(string(frozen), got.Render(sec)); d != "" {
			a.Violation("corpus-answers", fmt.Sprintf("file %s written by the pinned release now answers differently:\n%s", c.Corpus, d))
			return
		}
		// the decoder itself must agree with the pinned writer (keeps the decoder honest)
		fb, _ := os.ReadFile(path)
		if res, err := dec16.Decode(fb); err != nil {
			a.Note("decoder cannot decode frozen file " + c.Corpus + ": " + err.Error())
		} else if d := ref.Diff(string(frozen), res.Content.Render(sec)); d != "" {
			a.Note("decoder disagrees with frozen dump of " + c.Corpus)
			a.Count("decoder_vs_frozen_mismatch", 1)
		}
		a.Outcome("corpus-unchanged")
	}
}

func init() {
	run.Register(&run.Def{
		ID:          "C09",
		Level:       "exploration",
		Rule:        "(a) forward: every file of a curated bounded-exhaustive enumeration - the cross-section of all batch families of C04 (incl. the vector family under the vectors tag: framing of the vector section only), every depth-1 merge of the C05 menu over lists of length <= 2 with every drop vector, depth-2 merges of the distinct results, and the synonym merge menu - is written by the current code and decoded by harness/dec16, a reader written only from zap.md and the format's encoding comments (footer, sections index, per-field section table, inverted record, dictionary values incl. the single-hit form, postings record, chunked integer streams with the chunk-size rule, stored blocks, doc-value chunks and trailer, thesaurus block and synonym codes; it does not import zapx and uses vellum / roaring / snappy only for those leaf formats); the decoded content must equal the reference of what went in. (b) backward: a frozen corpus of 33 files written by the PINNED commit (every chunk mode, multi-chunk, doc values, 70 kB stored value, empty batch, synonyms, merges once / twice / thrice with single-hit entries, merges with deletions, empty merges) is opened by the current code on every run and its complete dump compared with the frozen dump. A symmetric change of writer and reader (reordered footer field, changed chunk rule, separator or varint) fails (a) and (b) although writer and reader still agree. Non-trivial = file with >= 1 document.",
		Assumptions: []string{"the decoder is written from the documentation; where zap.md is silent (norm = analysed length as integer, chunk-size rule, single-hit value layout) it follows the encoding comments of the pinned sources", "vector index bytes are the stand-in engine's: only zapx's framing of the vector section is covered"},
		Bounds:      map[string]string{"quick": "C04 cross-section, text merges depth<=2 (lists <=2, chunk mode 1026, quick menu), synonym merges depth 1 (lists <=3), vector merges depth 1, 33 corpus files; both build tags", "thorough": "same families at their thorough bounds"},
		Flavours:    plainAndVec,
		New:         func() interface{} { return &LayoutCase{} },
		Gen: func(tier string, emit func(interface{})) {
			vec := run.Flavour == "vec"
			enum.AllFamilies(tier, vec, func(b enum.AnyBatch) {
				if vec && b.Vec == nil && b.Syn == nil && b.Big == nil {
					return // the vectors-tag stage adds the vector and synonym families only
				}
				bb := b
				emit(LayoutCase{Kind: "batch", Batch: &bb})
			})
			tb := textBounds(tier)
			tb.maxLen1 = 2
			if tier == "quick" {
				tb.modes = []uint32{1026}
				tb.d2Modes = nil
			}
			if vec {
				genMerges("vec", mergeBounds{maxLen1: 2, modes: []uint32{1026}, depth2: tier != "quick", d2Menu: []int{0, 1}, fullDrops: true}, func(c enum.MergeCase) {
					cc := c
					emit(LayoutCase{Kind: "merge", Merge: &cc})
				})
				return
			}
			genMerges("text", tb, func(c enum.MergeCase) {
				cc := c
				emit(LayoutCase{Kind: "merge", Merge: &cc})
			})
			genBigMerges(tier, func(c enum.MergeCase) {
				cc := c
				emit(LayoutCase{Kind: "merge", Merge: &cc})
			})
			sb := synBounds(tier)
			sb.maxLen1 = 2
			if tier == "quick" {
				sb.depth2 = false
				sb.maxLen1 = 3
			}
			genMerges("syn", sb, func(c enum.MergeCase) {
				cc := c
				emit(LayoutCase{Kind: "merge", Merge: &cc})
			})
			for _, it := range enum.CorpusItems() {
				emit(LayoutCase{Kind: "corpus", Corpus: it.Name})
			}
		},
		Run: runC09,
	})
}
