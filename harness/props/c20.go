package props

import (
	"fmt"
	"os"
	"path/filepath"
	"strings"
	"sync"

	segment "github.com/blevesearch/scorch_segment_api/v2"
	zap "github.com/blevesearch/zapx/v16"

	"verif/dump"
	"verif/enum"
	"verif/mc/sched"
	"verif/ref"
	"verif/run"
	"verif/spec"
	"verif/zx"
)

// RefCase: a sequential history of reference operations, a concurrent holder
// harness, or the in-memory close scenario.
type RefCase struct {
	Kind    string `json:"kind"`              // seq | conc | mem
	Seq     string `json:"seq,omitempty"`     // seq: string over A (AddRef) D (DecRef) C (Close)
	Holders int    `json:"holders,omitempty"` // conc
	Bound   int    `json:"bound,omitempty"`
	Shard   int    `json:"shard,omitempty"`
	Of      int    `json:"of,omitempty"`
}

func fileMapped(path string) bool {
	b, err := os.ReadFile("/proc/self/maps")
	if err != nil {
		return false
	}
	return strings.Contains(string(b), path)
}

func fileOpen(path string) bool {
	ents, err := os.ReadDir("/proc/self/fd")
	if err != nil {
		return false
	}
	for _, e := range ents {
		if l, err := os.Readlink(filepath.Join("/proc/self/fd", e.Name())); err == nil && l == path {
			return true
		}
	}
	return false
}

// genRefSeqs: every sequence over {A,D,C} keeping the count in [1,4] until the last
// event, which brings it to 0; length <= maxLen.
func genRefSeqs(maxLen int, emit func(string)) {
	var rec func(prefix string, count int)
	rec = func(prefix string, count int) {
		if len(prefix) >= maxLen {
			return
		}
		for _, ev := range "ADC" {
			c := count + 1
			if ev != 'A' {
				c = count - 1
			}
			if c > 4 {
				continue
			}
			s := prefix + string(ev)
			if c == 0 {
				emit(s)
				continue
			}
			rec(s, c)
		}
	}
	rec("", 1)
}

// refSeqBatch: text fields with doc values and stored values, two thesauri, and
// (under the vectors tag) a vector field: every cache of a segment is in play between
// reference operations.
func refSeqBatch() spec.Batch {
	b := spec.Batch{}
	b.Docs = append(b.Docs, enum.TextMenu()[2].Docs...)
	for i, k := range []int{3, 11} {
		d := enum.SynDoc(i, k)
		d.ID = fmt.Sprintf("syn%d", i)
		b.Docs = append(b.Docs, d)
	}
	b.Docs = append(b.Docs, refVecDocs()...)
	return b
}

func runRefSeq(c RefCase, a *run.Acc) {
	batch := refSeqBatch()
	prepareVecBatch(nil)
	exp := ref.FromBatch(batch)
	mem, _, err := zx.Build(batch, 1026)
	if err != nil {
		a.Violation("setup-error", err.Error())
		return
	}
	defer mem.Close()
	path := zx.TempPath("c20")
	if err := mem.(segment.UnpersistedSegment).Persist(path); err != nil {
		a.Violation("setup-error", err.Error())
		return
	}
	defer zx.Remove(path)
	seg, err := zx.Plugin.Open(path)
	if err != nil {
		a.Violation("open-error", err.Error())
		return
	}
	fail := func(kind, msg string) {
		a.Violation(kind, fmt.Sprintf("history %q: %s", c.Seq, msg))
	}
	u := dump.UniverseOf(exp)
	count := 1
	check := func(after string) bool {
		refs := zap.VerifSegmentRefs(seg)
		mapped, open := fileMapped(path), fileOpen(path)
		a.State(fmt.Sprintf("refs=%d mapped=%v fd=%v", refs, mapped, open))
		if refs != int64(count) {
			fail("refcount", fmt.Sprintf("after %q the reference count is %d, want %d", after, refs, count))
			return false
		}
		if count > 0 {
			if !mapped || !open {
				fail("released-early", fmt.Sprintf("after %q (%d references held) mapped=%v fd-open=%v", after, count, mapped, open))
				return false
			}
			got, err := dump.Segment(seg, u)
			a.Eval(1)
			if err != nil {
				fail("read-error", fmt.Sprintf("after %q (%d references held): %v", after, count, err))
				return false
			}
			if d := zx.Compare(exp, got, ref.All); d != "" {
				fail("read-mismatch", fmt.Sprintf("after %q (%d references held):\n%s", after, count, d))
				return false
			}
			if m := checkThesauri(seg, exp, a, "opened segment"); m != "" {
				fail("read-mismatch", fmt.Sprintf("after %q (%d references held): %s", after, count, m))
				return false
			}
			if m := vecBuildOracle(seg, exp); m != "" {
				fail("read-mismatch", fmt.Sprintf("after %q (%d references held): %s", after, count, m))
				return false
			}
			return true
		}
		if mapped || open {
			fail("not-released", fmt.Sprintf("after the last reference was dropped (%q): mapped=%v fd-open=%v", after, mapped, open))
			return false
		}
		return true
	}
	if !check("") {
		return
	}
	if len(c.Seq) >= 4 {
		a.NonTrivial(c.Seq)
	}
	for i, ev := range c.Seq {
		var err error
		switch ev {
		case 'A':
			seg.AddRef()
			count++
		case 'D':
			err = seg.DecRef()
			count--
		case 'C':
			err = seg.Close()
			count--
		}
		a.Transition(1)
		if err != nil {
			fail("release-error", fmt.Sprintf("event %d (%c) returned %v", i, ev, err))
			return
		}
		if !check(c.Seq[:i+1]) {
			return
		}
	}
	a.Trace(1)
	a.Outcome(fmt.Sprintf("ok/len=%d", len(c.Seq)))
}

func runRefMem(c RefCase, a *run.Acc) {
	tm := enum.TextMenu()
	before, _, err := zx.Build(tm[3], 1026)
	if err != nil {
		a.Violation("setup-error", err.Error())
		return
	}
	defer before.Close()
	victimBatch, closeExtra := memCloseVictim()
	victim, _, err := zx.Build(victimBatch, 1026)
	if err != nil {
		a.Violation("setup-error", err.Error())
		return
	}
	expV := ref.FromBatch(victimBatch)
	if got, err := dump.Segment(victim, dump.UniverseOf(expV)); err != nil || zx.Compare(expV, got, ref.All) != "" {
		a.Violation("read-mismatch", fmt.Sprintf("in-memory segment before Close: %v", err))
		return
	}
	if m := closeExtra(victim, expV); m != "" {
		a.Violation("mem-close", m)
		return
	}
	a.NonTrivial("mem-close")
	a.Transition(1)
	a.Trace(1)
	a.State("in-memory closed")
	if err := victim.Close(); err != nil {
		a.Violation("mem-close", "Close of an in-memory segment returned "+err.Error())
		return
	}
	if live := engineLive(); live != 0 {
		a.Violation("engine-leak", fmt.Sprintf("%d native engine objects alive after the in-memory segment was closed", live))
		return
	}
	if m := engineMisuse(); m != "" {
		a.Violation("engine-misuse", m)
		return
	}
	after, _, err := zx.Build(tm[6], 1026)
	if err != nil {
		a.Violation("build-after-close", err.Error())
		return
	}
	defer after.Close()
	for _, t := range []struct {
		name string
		s    segment.Segment
		b    int
	}{{"segment built before", before, 3}, {"segment built after", after, 6}} {
		exp := ref.FromBatch(tm[t.b])
		got, err := dump.Segment(t.s, dump.UniverseOf(exp))
		a.Eval(1)
		if err != nil {
			a.Violation("disturbed", t.name+" the close: "+err.Error())
			return
		}
		if d := zx.Compare(exp, got, ref.All); d != "" {
			a.Violation("disturbed", t.name+" the close answers differently:\n"+d)
			return
		}
	}
	a.Outcome("ok/mem-close")
}

func runRefConc(c RefCase, a *run.Acc) {
	batch := spec.Batch{Docs: append(append([]spec.Doc{}, enum.TextMenu()[2].Docs...), enum.SynDoc(2, 4))}
	batch.Docs[2].ID = "syn"
	// expected answers of the small read: a stored-field lookup and a lookup in the
	// lazily loaded thesaurus cache (which Close has to clear)
	read := func(seg segment.Segment, withThesaurus bool) string {
		id, err := seg.DocID(1)
		if err != nil {
			return "error: " + err.Error()
		}
		if !withThesaurus {
			return fmt.Sprintf("%s/%d/true", id, seg.Count())
		}
		th, err := seg.(segment.ThesaurusSegment).Thesaurus("s1")
		if err != nil {
			return "error: " + err.Error()
		}
		has, err := th.Contains([]byte("b"))
		if err != nil {
			return "error: " + err.Error()
		}
		return fmt.Sprintf("%s/%d/%v", id, seg.Count(), has)
	}
	want := "p1/3/true"
	var lastPath string
	body := func(fails *[]string, mu *sync.Mutex) {
		mem, _, err := zx.Build(batch, 1026)
		if err != nil {
			failf(fails, mu, "setup: %v", err)
			return
		}
		defer mem.Close()
		path := zx.TempPath("c20c")
		lastPath = path
		if err := mem.(segment.UnpersistedSegment).Persist(path); err != nil {
			failf(fails, mu, "setup: %v", err)
			return
		}
		defer zx.Remove(path)
		seg, err := zx.Plugin.Open(path)
		if err != nil {
			failf(fails, mu, "open: %v", err)
			return
		}
		// the owner hands one reference to every holder before it starts
		for i := 0; i < c.Holders; i++ {
			seg.AddRef()
		}
		var bodies []func()
		for i := 0; i < c.Holders; i++ {
			i := i
			bodies = append(bodies, func() {
				if got := read(seg, true); got != want {
					failf(fails, mu, "holder %d read %q while holding a reference, want %q", i, got, want)
				}
				seg.AddRef()
				if err := seg.DecRef(); err != nil {
					failf(fails, mu, "holder %d: DecRef returned %v", i, err)
				}
				if got := read(seg, false); got != want {
					failf(fails, mu, "holder %d read %q while holding a reference, want %q", i, got, want)
				}
				if err := seg.DecRef(); err != nil {
					failf(fails, mu, "holder %d: final DecRef returned %v", i, err)
				}
			})
		}
		bodies = append(bodies, func() {
			if got := read(seg, false); got != want {
				failf(fails, mu, "owner read %q before Close, want %q", got, want)
			}
			if err := seg.Close(); err != nil {
				failf(fails, mu, "owner: Close returned %v", err)
			}
		})
		parallel(bodies...)
		if refs := zap.VerifSegmentRefs(seg); refs != 0 {
			failf(fails, mu, "reference count %d after every holder released", refs)
		}
		if fileMapped(path) || fileOpen(path) {
			failf(fails, mu, "after the last reference was dropped: mapped=%v fd-open=%v", fileMapped(path), fileOpen(path))
		}
	}
	_ = lastPath
	opt := sched.Options{PreemptionBound: c.Bound, EnvBound: 0, MaxExecutions: 600000}
	of := c.Of
	if of == 0 {
		of = 1
	}
	res := exploreCaseShard(body, opt, 200, c.Shard, of, a)
	res.record(a, fmt.Sprint(c))
	a.NonTrivial(fmt.Sprint(c))
	if strings.HasPrefix(res.failure, "HARNESS") {
		a.Note(res.failure)
		a.Capped = true
		return
	}
	if res.failure != "" {
		a.Violation("concurrent-refcount", fmt.Sprintf("%d holders + owner, schedule %v, preemption bound %d:\n%s", c.Holders, res.schedule, c.Bound, res.failure))
		return
	}
	a.Outcome(fmt.Sprintf("ok/conc/holders=%d", c.Holders))
}

func init() {
	run.Register(&run.Def{
		ID:          "C20",
		Level:       "model_checking",
		Rule:        "(a) sequential explicit-state exploration on a real opened segment: EVERY sequence of AddRef / DecRef / Close events of length <= 9 (quick) / 11 (thorough) that keeps the count in [1,4] until its last event; state key = (reference count read through the verif hook, file mapped according to /proc/self/maps, descriptor open according to /proc/self/fd); the segment has text fields with doc values and stored values, two thesauri and (vectors tag) a vector field, so every cache is in play; in every state with a positive count the complete dump, every thesaurus lookup and (vectors tag) exact vector searches must equal the reference, the mapping and descriptor must be present; after the last event both must be gone and every release call must have returned nil; a premature unmap is a SIGSEGV of the worker and is attributed to the history. (b) closing an in-memory segment (after using its caches) returns nil, leaves a segment built before and one built after undisturbed and, under the vectors tag, leaves no native index alive. (c) stateless model checking under the controlled scheduler: 1 holder (all interleavings), 2 holders (preemption bound 3 quick / 4 thorough) and 3 holders (preemption bound 2 quick / 3 thorough), each handed a reference, doing read; AddRef; DecRef; read; DecRef (a read = a stored-field lookup; each holder's first read also looks a term up in the lazily loaded thesaurus cache, which the final release has to clear), against the owner's read; Close, interleaved at the segment's lock points; every read while holding a reference must give the sequential answer, every release returns nil, and at the end the count is 0 and mapping and descriptor are gone; plus a free-running -race pass of the same bodies.",
		Assumptions: []string{"a holder only takes a new reference while it already holds one (references are handed over by an owner)", "reads of a closed in-memory segment are not part of the property and are not issued"},
		Bounds:      map[string]string{"quick": "sequences of length <= 9; 1 holder unbounded, 2 holders bound 3, 3 holders bound 2; race pass", "thorough": "sequences of length <= 11; 1 holder unbounded, 2 holders bound 4, 3 holders bound 3; race pass"},
		Flavours:    func(string) []string { return []string{"plain", "vec", "inst", "race"} },
		New:         func() interface{} { return &RefCase{} },
		Gen: func(tier string, emit func(interface{})) {
			switch run.Flavour {
			case "plain":
				maxLen := 9
				if tier == "thorough" {
					maxLen = 11
				}
				genRefSeqs(maxLen, func(s string) { emit(RefCase{Kind: "seq", Seq: s}) })
				emit(RefCase{Kind: "mem"})
			case "vec":
				emit(RefCase{Kind: "mem"})
				genRefSeqs(5, func(s string) { emit(RefCase{Kind: "seq", Seq: s}) })
			case "inst":
				emit(RefCase{Kind: "conc", Holders: 1, Bound: -1})
				b2, b3 := 3, 2
				if tier == "thorough" {
					b2, b3 = 4, 3
				}
				for s := 0; s < 32; s++ {
					emit(RefCase{Kind: "conc", Holders: 2, Bound: b2, Shard: s, Of: 32})
				}
				for s := 0; s < 32; s++ {
					emit(RefCase{Kind: "conc", Holders: 3, Bound: b3, Shard: s, Of: 32})
				}
			default:
				emit(RefCase{Kind: "conc", Holders: 2})
				emit(RefCase{Kind: "conc", Holders: 3})
			}
		},
		Run: func(ci interface{}, a *run.Acc) {
			c := *ci.(*RefCase)
			switch c.Kind {
			case "seq":
				runRefSeq(c, a)
			case "mem":
				runRefMem(c, a)
			case "conc":
				runRefConc(c, a)
			}
		},
	})
}
