package props

import (
	"fmt"

	"github.com/RoaringBitmap/roaring/v2"
	segment "github.com/blevesearch/scorch_segment_api/v2"

	"verif/ref"
	"verif/run"
	"verif/spec"
	"verif/zx"
)

// reuse family: 2 segments x 5 (field, term) x 2 exclusions
type reuseList struct {
	seg    int
	field  string
	term   string
	except []uint32
}

var reuseFT = [][2]string{{"a", "x"}, {"a", "w"}, {"b", "x"}, {"a", "zz"}, {"zzfield", "x"}}

func reuseFamily() []reuseList {
	var rv []reuseList
	for s := 0; s < 2; s++ {
		for _, ft := range reuseFT {
			for _, ex := range [][]uint32{nil, {2, 3}} {
				rv = append(rv, reuseList{s, ft[0], ft[1], ex})
			}
		}
	}
	return rv
}

func reuseBatch(which int) spec.Batch {
	// which 0: a:x in {0,2,3}, a:w in {1}, b:x in {1,4};  which 1: a:x in {1,2,4}, a:w in {3}, b:x in {0}
	ax := [][]int{{0, 2, 3}, {1, 2, 4}}[which]
	aw := []int{1, 3}[which]
	bx := [][]int{{1, 4}, {0}}[which]
	in := func(l []int, d int) bool {
		for _, x := range l {
			if x == d {
				return true
			}
		}
		return false
	}
	var b spec.Batch
	for d := 0; d < 5; d++ {
		doc := spec.Doc{ID: fmt.Sprintf("r%d-%d", which, d)}
		fa := spec.Field{Name: "a", Len: d + 2}
		if in(ax, d) {
			t := spec.Tok{Term: "x", Freq: 1 + d%3}
			if d%2 == 0 {
				for i := 0; i < t.Freq; i++ {
					t.Locs = append(t.Locs, spec.Loc{Pos: i + 1, Start: i, End: i + 1, AP: []uint64{uint64(d), uint64(i)}})
				}
			}
			fa.Toks = append(fa.Toks, t)
		}
		if d == aw {
			fa.Toks = append(fa.Toks, spec.Tok{Term: "w", Freq: 1})
		}
		doc.Fields = append(doc.Fields, fa)
		if in(bx, d) {
			doc.Fields = append(doc.Fields, spec.Field{Name: "b", Len: 1, Toks: []spec.Tok{{Term: "x", Freq: 2, Locs: []spec.Loc{{Field: "", Pos: 9, Start: 1, End: 2}}}}})
		}
		b.Docs = append(b.Docs, doc)
	}
	return b
}

type reuseEnv struct {
	segs []segment.Segment
	exps []*ref.Content
	done func()
}

func newReuseEnv() (*reuseEnv, error) {
	env := &reuseEnv{}
	var cleanup []func()
	env.done = func() {
		for i := len(cleanup) - 1; i >= 0; i-- {
			cleanup[i]()
		}
	}
	b0, b1 := reuseBatch(0), reuseBatch(1)
	s0, _, err := zx.Build(b0, 2)
	if err != nil {
		return env, err
	}
	cleanup = append(cleanup, func() { s0.Close() })
	m1, _, err := zx.Build(b1, 3)
	if err != nil {
		return env, err
	}
	cleanup = append(cleanup, func() { m1.Close() })
	path, _, _, err := zx.Merge([]segment.Segment{m1}, []*roaring.Bitmap{nil}, 3)
	cleanup = append(cleanup, func() { zx.Remove(path) })
	if err != nil {
		return env, err
	}
	s1, err := zx.Plugin.Open(path)
	if err != nil {
		return env, err
	}
	cleanup = append(cleanup, func() { s1.Close() })
	env.segs = []segment.Segment{s0, s1}
	env.exps = []*ref.Content{ref.FromBatch(b0), ref.FromBatch(b1)}
	return env, nil
}

func genReuse(tier string, emit func(interface{})) {
	n := len(reuseFamily())
	for a := 0; a < n; a++ {
		for b := 0; b < n; b++ {
			emit(PostCase{Kind: "reuse", N: a, P: b, Card: -1})
			for c := 0; c < n; c++ {
				emit(PostCase{Kind: "reuse", N: a, P: b, Card: c})
			}
		}
	}
}

// runReuse: PostCase fields are reused as (N, P, Card) = (A, B, C) list indexes; Card=-1: pair.
func runReuse(c PostCase, a *run.Acc) {
	fam := reuseFamily()
	seq := []reuseList{fam[c.N], fam[c.P]}
	if c.Card >= 0 {
		seq = append(seq, fam[c.Card])
	}
	env, err := newReuseEnv()
	defer env.done()
	if err != nil {
		a.Violation("setup-error", err.Error())
		return
	}
	desc := func() string {
		s := ""
		for _, l := range seq {
			s += fmt.Sprintf(" -> seg%d(%q,%q,except %v)", l.seg, l.field, l.term, l.except)
		}
		return s
	}
	a.NonTrivial(fmt.Sprintf("reuse/%d/%d/%d", c.N, c.P, c.Card))
	type fl struct{ early, last int }
	flagCombos := []fl{{7, 7}, {0, 7}, {7, 1}, {4, 6}}
	consumeModes := []int{0, 1, -1} // number of Next calls before the object is reused; -1 = until nil
	nEarly := len(seq) - 1
	var consume func(i int, cur []int)
	consume = func(i int, cur []int) {
		if i == nEarly {
			for _, fc := range flagCombos {
				cm := append([]int(nil), cur...)
				last := seq[len(seq)-1]
				eset := map[uint32]bool{}
				for _, d := range last.except {
					eset[d] = true
				}
				hits := hitsOf(env.exps[last.seg], last.field, last.term, eset)
				f, m, l := fc.last&1 != 0, fc.last&2 != 0, fc.last&4 != 0
				var histFail string
				mk := func() (segment.PostingsIterator, error) {
					var pl segment.PostingsList
					var it segment.PostingsIterator
					for k, step := range seq {
						dict, err := env.segs[step.seg].Dictionary(step.field)
						if err != nil {
							return nil, err
						}
						pl, err = dict.PostingsList([]byte(step.term), bitmapOf32(step.except), pl)
						if err != nil {
							return nil, err
						}
						flags := fc.early
						if k == len(seq)-1 {
							flags = fc.last
						}
						it = pl.Iterator(flags&1 != 0, flags&2 != 0, flags&4 != 0, it)
						es := map[uint32]bool{}
						for _, d := range step.except {
							es[d] = true
						}
						sh := hitsOf(env.exps[step.seg], step.field, step.term, es)
						if msg := checkCreation(pl, it, sh); msg != "" && histFail == "" {
							histFail = fmt.Sprintf("step %d: %s", k, msg)
						}
						if k == len(seq)-1 {
							break
						}
						// consume
						want := cm[k]
						for j := 0; want < 0 || j < want; j++ {
							p, err := it.Next()
							if err != nil {
								return nil, err
							}
							var expDoc int64 = -1
							if j < len(sh) {
								expDoc = int64(sh[j].Doc)
							}
							if p == nil {
								if expDoc != -1 && histFail == "" {
									histFail = fmt.Sprintf("step %d: Next #%d returned nil, want doc %d", k, j, expDoc)
								}
								break
							}
							if msg := hitEqual(p, sh[min(j, len(sh)-1)], flags&1 != 0, flags&2 != 0, flags&4 != 0); (expDoc == -1 || msg != "") && histFail == "" {
								histFail = fmt.Sprintf("step %d: Next #%d: %s", k, j, msg)
							}
						}
					}
					return it, nil
				}
				ex := &seqExplorer{hits: hits, n: 5, f: f, m: m, l: l, mk: mk}
				ex.explore(nil, 0)
				a.Eval(int(ex.paths))
				a.Count("calls", int(ex.calls))
				if histFail != "" || ex.fail != "" {
					a.Violation("reuse", fmt.Sprintf("preallocation reuse history%s; calls consumed before each reuse %v; flags early=%d last=%d:\n%s %s", desc(), cm, fc.early, fc.last, histFail, ex.fail))
					return
				}
			}
			return
		}
		for _, m := range consumeModes {
			consume(i+1, append(cur, m))
		}
	}
	consume(0, nil)
	a.Outcome(fmt.Sprintf("ok/reuse/len=%d", len(seq)))
}

// genDonate / runDonate: only the ITERATOR of list A is passed on as preallocation (to a
// fresh list B of another term / field / segment / exclusion) while list A itself stays
// in use. B's iterator must be right, A must still describe its own hits (Count, a fresh
// iteration), and a bitmap the caller handed to ReplaceActual must not be written to.
func genDonate(tier string, emit func(interface{})) {
	n := len(reuseFamily())
	for a := 0; a < n; a++ {
		for b := 0; b < n; b++ {
			emit(PostCase{Kind: "donate", N: a, P: b})
		}
	}
}

func runDonate(c PostCase, a *run.Acc) {
	fam := reuseFamily()
	la, lb := fam[c.N], fam[c.P]
	env, err := newReuseEnv()
	defer env.done()
	if err != nil {
		a.Violation("setup-error", err.Error())
		return
	}
	a.NonTrivial(fmt.Sprintf("donate/%d/%d", c.N, c.P))
	hitsFor := func(l reuseList) []ref.Hit {
		es := map[uint32]bool{}
		for _, d := range l.except {
			es[d] = true
		}
		return hitsOf(env.exps[l.seg], l.field, l.term, es)
	}
	list := func(l reuseList) (segment.PostingsList, error) {
		dict, err := env.segs[l.seg].Dictionary(l.field)
		if err != nil {
			return nil, err
		}
		return dict.PostingsList([]byte(l.term), bitmapOf32(l.except), nil)
	}
	ha, hb := hitsFor(la), hitsFor(lb)
	for _, flags := range []int{7, 0, 1} {
		for _, consumed := range []int{0, 1, -1} {
			for _, replace := range []bool{false, true} {
				fail := func(msg string) {
					a.Violation("donated-iterator", fmt.Sprintf("iterator of seg%d(%q,%q,except %v) after %d Next calls (ReplaceActual first: %v) passed as preallocation to a fresh list seg%d(%q,%q,except %v), flags %d: %s",
						la.seg, la.field, la.term, la.except, consumed, replace, lb.seg, lb.field, lb.term, lb.except, flags, msg))
				}
				pa, err := list(la)
				if err != nil {
					fail(err.Error())
					return
				}
				ita := pa.Iterator(flags&1 != 0, flags&2 != 0, flags&4 != 0, nil)
				wantA := ha
				var given, givenCopy *roaring.Bitmap
				if replace {
					o := ita.(segment.OptimizablePostingsIterator)
					if _, is1 := o.DocNum1Hit(); is1 || o.ActualBitmap() == nil || len(ha) < 2 {
						continue
					}
					given = roaring.New()
					given.Add(uint32(ha[len(ha)-1].Doc))
					givenCopy = given.Clone()
					o.ReplaceActual(given)
					wantA = ha[len(ha)-1:]
				}
				for j := 0; consumed < 0 || j < consumed; j++ {
					p, err := ita.Next()
					if err != nil {
						fail(err.Error())
						return
					}
					if p == nil {
						break
					}
					if j >= len(wantA) || p.Number() != wantA[j].Doc {
						fail(fmt.Sprintf("before the hand-over, Next #%d returned doc %d, want %v", j, p.Number(), docsOf(wantA)))
						return
					}
				}
				pb, err := list(lb)
				if err != nil {
					fail(err.Error())
					return
				}
				itb := pb.Iterator(flags&1 != 0, flags&2 != 0, flags&4 != 0, ita)
				if msg := checkCreation(pb, itb, hb); msg != "" {
					fail("new list: " + msg)
					return
				}
				got, err := dumpHits(itb)
				a.Eval(1)
				if err != nil {
					fail(err.Error())
					return
				}
				if fmt.Sprint(docsOf(got)) != fmt.Sprint(docsOf(hb)) {
					fail(fmt.Sprintf("new iterator returned docs %v, want %v", docsOf(got), docsOf(hb)))
					return
				}
				for i := range got {
					if msg := hitEqualRef(got[i], hb[i], flags&1 != 0, flags&2 != 0, flags&4 != 0); msg != "" {
						fail(fmt.Sprintf("new iterator, hit %d: %s", i, msg))
						return
					}
				}
				// the old list is still the caller's object
				if pa.Count() != uint64(len(ha)) {
					fail(fmt.Sprintf("the OLD list now reports Count() = %d, want %d", pa.Count(), len(ha)))
					return
				}
				again, err := dumpHits(pa.Iterator(true, true, true, nil))
				if err != nil {
					fail(err.Error())
					return
				}
				if fmt.Sprint(docsOf(again)) != fmt.Sprint(docsOf(ha)) {
					fail(fmt.Sprintf("a fresh iteration of the OLD list returns docs %v, want %v", docsOf(again), docsOf(ha)))
					return
				}
				if given != nil && !given.Equals(givenCopy) {
					fail(fmt.Sprintf("the bitmap handed to ReplaceActual was overwritten: now %v, was %v", given.ToArray(), givenCopy.ToArray()))
					return
				}
			}
		}
	}
	a.Outcome("ok/donate")
}

func dumpHits(it segment.PostingsIterator) ([]ref.Hit, error) {
	var rv []ref.Hit
	for {
		p, err := it.Next()
		if err != nil {
			return nil, err
		}
		if p == nil {
			return rv, nil
		}
		h := ref.Hit{Doc: p.Number(), Freq: p.Frequency(), Norm: p.Norm()}
		for _, l := range p.Locations() {
			var ap []uint64
			if len(l.ArrayPositions()) > 0 {
				ap = append(ap, l.ArrayPositions()...)
			}
			h.Locs = append(h.Locs, ref.Loc{Field: l.Field(), Pos: l.Pos(), Start: l.Start(), End: l.End(), AP: ap})
		}
		rv = append(rv, h)
	}
}

// hitEqualRef compares only the requested details of two reference hits.
func hitEqualRef(got, want ref.Hit, freq, norm, locs bool) string {
	if got.Doc != want.Doc {
		return fmt.Sprintf("doc %d, want %d", got.Doc, want.Doc)
	}
	if freq && got.Freq != want.Freq {
		return fmt.Sprintf("doc %d: frequency %d, want %d", got.Doc, got.Freq, want.Freq)
	}
	if norm && want.Freq > 0 && got.Norm != want.Norm {
		return fmt.Sprintf("doc %d: norm %v, want %v", got.Doc, got.Norm, want.Norm)
	}
	if locs && fmt.Sprint(got.Locs) != fmt.Sprint(want.Locs) {
		return fmt.Sprintf("doc %d: locations %v, want %v", got.Doc, got.Locs, want.Locs)
	}
	return ""
}

func bitmapOf32(ds []uint32) *roaring.Bitmap {
	if ds == nil {
		return nil
	}
	bm := roaring.New()
	for _, d := range ds {
		bm.Add(d)
	}
	return bm
}
