package props

import (
	"fmt"

	"github.com/RoaringBitmap/roaring/v2"
	segment "github.com/blevesearch/scorch_segment_api/v2"

	"verif/ref"
	"verif/run"
	"verif/spec"
	"verif/zx"
)

// reuse family: 2 segments x 5 (field, term) x 2 exclusions
type reuseList struct {
	seg    int
	field  string
	term   string
	except []uint32
}

var reuseFT = [][2]string{{"a", "x"}, {"a", "w"}, {"b", "x"}, {"a", "zz"}, {"zzfield", "x"}}

func reuseFamily() []reuseList {
	var rv []reuseList
	for s := 0; s < 2; s++ {
		for _, ft := range reuseFT {
			for _, ex := range [][]uint32{nil, {2, 3}} {
				rv = append(rv, reuseList{s, ft[0], ft[1], ex})
			}
		}
	}
	return rv
}

func reuseBatch(which int) spec.Batch {
	// which 0: a:x in {0,2,3}, a:w in {1}, b:x in {1,4};  which 1: a:x in {1,2,4}, a:w in {3}, b:x in {0}
	ax := [][]int{{0, 2, 3}, {1, 2, 4}}[which]
	aw := []int{1, 3}[which]
	bx := [][]int{{1, 4}, {0}}[which]
	in := func(l []int, d int) bool {
		for _, x := range l {
			if x == d {
				return true
			}
		}
		return false
	}
	var b spec.Batch
	for d := 0; d < 5; d++ {
		doc := spec.Doc{ID: fmt.Sprintf("r%d-%d", which, d)}
		fa := spec.Field{Name: "a", Len: d + 2}
		if in(ax, d) {
			t := spec.Tok{Term: "x", Freq: 1 + d%3}
			if d%2 == 0 {
				for i := 0; i < t.Freq; i++ {
					t.Locs = append(t.Locs, spec.Loc{Pos: i + 1, Start: i, End: i + 1, AP: []uint64{uint64(d), uint64(i)}})
				}
			}
			fa.Toks = append(fa.Toks, t)
		}
		if d == aw {
			fa.Toks = append(fa.Toks, spec.Tok{Term: "w", Freq: 1})
		}
		doc.Fields = append(doc.Fields, fa)
		if in(bx, d) {
			doc.Fields = append(doc.Fields, spec.Field{Name: "b", Len: 1, Toks: []spec.Tok{{Term: "x", Freq: 2, Locs: []spec.Loc{{Field: "", Pos: 9, Start: 1, End: 2}}}}})
		}
		b.Docs = append(b.Docs, doc)
	}
	return b
}

type reuseEnv struct {
	segs []segment.Segment
	exps []*ref.Content
	done func()
}

func newReuseEnv() (*reuseEnv, error) {
	env := &reuseEnv{}
	var cleanup []func()
	env.done = func() {
		for i := len(cleanup) - 1; i >= 0; i-- {
			cleanup[i]()
		}
	}
	b0, b1 := reuseBatch(0), reuseBatch(1)
	s0, _, err := zx.Build(b0, 2)
	if err != nil {
		return env, err
	}
	cleanup = append(cleanup, func() { s0.Close() })
	m1, _, err := zx.Build(b1, 3)
	if err != nil {
		return env, err
	}
	cleanup = append(cleanup, func() { m1.Close() })
	path, _, _, err := zx.Merge([]segment.Segment{m1}, []*roaring.Bitmap{nil}, 3)
	cleanup = append(cleanup, func() { zx.Remove(path) })
	if err != nil {
		return env, err
	}
	s1, err := zx.Plugin.Open(path)
	if err != nil {
		return env, err
	}
	cleanup = append(cleanup, func() { s1.Close() })
	env.segs = []segment.Segment{s0, s1}
	env.exps = []*ref.Content{ref.FromBatch(b0), ref.FromBatch(b1)}
	return env, nil
}

func genReuse(tier string, emit func(interface{})) {
	n := len(reuseFamily())
	for a := 0; a < n; a++ {
		for b := 0; b < n; b++ {
			emit(PostCase{Kind: "reuse", N: a, P: b, Card: -1})
			for c := 0; c < n; c++ {
				emit(PostCase{Kind: "reuse", N: a, P: b, Card: c})
			}
		}
	}
}

// runReuse: PostCase fields are reused as (N, P, Card) = (A, B, C) list indexes; Card=-1: pair.
func runReuse(c PostCase, a *run.Acc) {
	fam := reuseFamily()
	seq := []reuseList{fam[c.N], fam[c.P]}
	if c.Card >= 0 {
		seq = append(seq, fam[c.Card])
	}
	env, err := newReuseEnv()
	defer env.done()
	if err != nil {
		a.Violation("setup-error", err.Error())
		return
	}
	desc := func() string {
		s := ""
		for _, l := range seq {
			s += fmt.Sprintf(" -> seg%d(%q,%q,except %v)", l.seg, l.field, l.term, l.except)
		}
		return s
	}
	a.NonTrivial(fmt.Sprintf("reuse/%d/%d/%d", c.N, c.P, c.Card))
	type fl struct{ early, last int }
	flagCombos := []fl{{7, 7}, {0, 7}, {7, 1}, {4, 6}}
	consumeModes := []int{0, 1, -1} // number of Next calls before the object is reused; -1 = until nil
	nEarly := len(seq) - 1
	var consume func(i int, cur []int)
	consume = func(i int, cur []int) {
		if i == nEarly {
			for _, fc := range flagCombos {
				cm := append([]int(nil), cur...)
				last := seq[len(seq)-1]
				eset := map[uint32]bool{}
				for _, d := range last.except {
					eset[d] = true
				}
				hits := hitsOf(env.exps[last.seg], last.field, last.term, eset)
				f, m, l := fc.last&1 != 0, fc.last&2 != 0, fc.last&4 != 0
				var histFail string
				mk := func() (segment.PostingsIterator, error) {
					var pl segment.PostingsList
					var it segment.PostingsIterator
					for k, step := range seq {
						dict, err := env.segs[step.seg].Dictionary(step.field)
						if err != nil {
							return nil, err
						}
						pl, err = dict.PostingsList([]byte(step.term), bitmapOf32(step.except), pl)
						if err != nil {
							return nil, err
						}
						flags := fc.early
						if k == len(seq)-1 {
							flags = fc.last
						}
						it = pl.Iterator(flags&1 != 0, flags&2 != 0, flags&4 != 0, it)
						es := map[uint32]bool{}
						for _, d := range step.except {
							es[d] = true
						}
						sh := hitsOf(env.exps[step.seg], step.field, step.term, es)
						if msg := checkCreation(pl, it, sh); msg != "" && histFail == "" {
							histFail = fmt.Sprintf("step %d: %s", k, msg)
						}
						if k == len(seq)-1 {
							break
						}
						// consume
						want := cm[k]
						for j := 0; want < 0 || j < want; j++ {
							p, err := it.Next()
							if err != nil {
								return nil, err
							}
							var expDoc int64 = -1
							if j < len(sh) {
								expDoc = int64(sh[j].Doc)
							}
							if p == nil {
								if expDoc != -1 && histFail == "" {
									histFail = fmt.Sprintf("step %d: Next #%d returned nil, want doc %d", k, j, expDoc)
								}
								break
							}
							if msg := hitEqual(p, sh[min(j, len(sh)-1)], flags&1 != 0, flags&2 != 0, flags&4 != 0); (expDoc == -1 || msg != "") && histFail == "" {
								histFail = fmt.Sprintf("step %d: Next #%d: %s", k, j, msg)
							}
						}
					}
					return it, nil
				}
				ex := &seqExplorer{hits: hits, n: 5, f: f, m: m, l: l, mk: mk}
				ex.explore(nil, 0)
				a.Eval(int(ex.paths))
				a.Count("calls", int(ex.calls))
				if histFail != "" || ex.fail != "" {
					a.Violation("reuse", fmt.Sprintf("preallocation reuse history%s; calls consumed before each reuse %v; flags early=%d last=%d:\n%s %s", desc(), cm, fc.early, fc.last, histFail, ex.fail))
					return
				}
			}
			return
		}
		for _, m := range consumeModes {
			consume(i+1, append(cur, m))
		}
	}
	consume(0, nil)
	a.Outcome(fmt.Sprintf("ok/reuse/len=%d", len(seq)))
}

func bitmapOf32(ds []uint32) *roaring.Bitmap {
	if ds == nil {
		return nil
	}
	bm := roaring.New()
	for _, d := range ds {
		bm.Add(d)
	}
	return bm
}
