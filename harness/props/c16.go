//go:build vectors

package props

import (
	"fmt"
	"math/rand"
	"strings"
	"sync"

	faiss "github.com/blevesearch/go-faiss"
	segment "github.com/blevesearch/scorch_segment_api/v2"
	zap "github.com/blevesearch/zapx/v16"

	"verif/enum"
	"verif/mc/sched"
	"verif/ref"
	"verif/run"
	"verif/spec"
	"verif/zx"
)

// CacheCase: a breadth-first exploration of cache event histories below a prefix,
// or a concurrent searcher harness.
type CacheCase struct {
	Kind   string `json:"kind"` // bfs | conc
	Prefix []int  `json:"prefix,omitempty"`
	Depth  int    `json:"depth,omitempty"`
	Seg    string `json:"seg,omitempty"` // mem | mmap
	Bound  int    `json:"bound,omitempty"`
	Shard  int    `json:"shard,omitempty"`
	Of     int    `json:"of,omitempty"`
}

// events of the cache state machine
type cacheEvent struct {
	name string
	kind string // open search searchf close tick segclose
	h    int    // handle slot 0/1
	ex   []uint32
	filt bool
	el   []uint64
}

func cacheEvents() []cacheEvent {
	var evs []cacheEvent
	for _, ex := range [][]uint32{nil, {0}, {1}} {
		for _, filt := range []bool{false, true} {
			evs = append(evs, cacheEvent{name: fmt.Sprintf("open(except=%v,filtering=%v)", ex, filt), kind: "open", ex: ex, filt: filt})
		}
	}
	// a handle whose exclusion bitmap covers EVERY document (a fully deleted segment)
	evs = append(evs, cacheEvent{name: "open(except=[0 1 2],filtering=false)", kind: "open", ex: []uint32{0, 1, 2}})
	for h := 0; h < 2; h++ {
		evs = append(evs, cacheEvent{name: fmt.Sprintf("search(h%d)", h), kind: "search", h: h})
		evs = append(evs, cacheEvent{name: fmt.Sprintf("searchFiltered(h%d,[1])", h), kind: "searchf", h: h, el: []uint64{1}})
		evs = append(evs, cacheEvent{name: fmt.Sprintf("searchFiltered(h%d,[0 1 2])", h), kind: "searchf", h: h, el: []uint64{0, 1, 2}})
		evs = append(evs, cacheEvent{name: fmt.Sprintf("close(h%d)", h), kind: "close", h: h})
	}
	evs = append(evs, cacheEvent{name: "tick", kind: "tick"})
	evs = append(evs, cacheEvent{name: "segclose", kind: "segclose"})
	return evs
}

func cacheBatch() spec.Batch {
	// doc0: g1 ; doc1: two vectors g0,g3 ; doc2: g4
	return enum.VecCase{Docs: []int{2, 0, 5}, Metric: "l2_norm"}.Batch()
}

func cacheBatch2() spec.Batch {
	b := cacheBatch()
	b.Docs[1].Fields = append(b.Docs[1].Fields, spec.Field{Name: "v", Kind: spec.Vector, Vec: []float32{0, 0, 1, 1}, Dims: 2, Sim: "l2_norm", Opt: "recall"})
	return b
}

type cacheHandle struct {
	vi     segment.VectorIndex
	ex     []uint32
	filt   bool
	idx    int64 // engine object id of the index this handle got
	closed bool
}

// cacheWorld is the live state reached by replaying a history.
type cacheWorld struct {
	seg     segment.Segment
	exp     *ref.Content
	h       [2]*cacheHandle
	closed  bool
	cleanup []func()
}

func newCacheWorld(kind string) (*cacheWorld, error) {
	rand.Seed(99)
	b := cacheBatch2()
	w := &cacheWorld{exp: ref.FromBatch(b)}
	mem, _, err := zx.Build(b, 1026)
	if err != nil {
		return nil, err
	}
	w.seg = mem
	if kind == "mmap" {
		o, path, err := zx.PersistOpen(mem)
		if err != nil {
			return nil, err
		}
		w.cleanup = append(w.cleanup, func() { mem.Close(); zx.Remove(path) })
		w.seg = o
	}
	return w, nil
}

func (w *cacheWorld) enabled(e cacheEvent) bool {
	if w.closed {
		return false
	}
	switch e.kind {
	case "open":
		return w.h[0] == nil || w.h[1] == nil
	case "search", "searchf", "close":
		return w.h[e.h] != nil
	case "segclose":
		return w.h[0] == nil && w.h[1] == nil
	}
	return true
}

var cacheQuery = []float32{0, 0}

// apply executes one event and checks the per-event invariants.
func (w *cacheWorld) apply(e cacheEvent) string {
	switch e.kind {
	case "open":
		slot := 0
		if w.h[0] != nil {
			slot = 1
		}
		vi, err := w.seg.(segment.VectorSegment).InterpretVectorIndex("v", e.filt, bitmapOf(e.ex))
		if err != nil {
			return "InterpretVectorIndex: " + err.Error()
		}
		w.h[slot] = &cacheHandle{vi: vi, ex: e.ex, filt: e.filt, idx: faiss.ObjectID(zap.VerifVecCacheIndex(w.seg, "v"))}
	case "search", "searchf":
		h := w.h[e.h]
		for _, k := range []int64{1, 3} {
			q := vecQuery{Field: "v", Q: cacheQuery, K: k, Except: h.ex, ReqFilter: h.filt, Filtered: e.kind == "searchf", Eligible: e.el}
			if q.Filtered && !h.filt {
				// a handle opened without requiresFiltering has no doc->ids map: filtered
				// search through it is outside the contract
				return ""
			}
			got, err := runSearch(h.vi, q)
			if err != nil {
				return fmt.Sprintf("%s: %v", q, err)
			}
			if m := checkResult(w.exp, q, got, true); m != "" {
				return fmt.Sprintf("%s: %s", q, m)
			}
		}
	case "close":
		w.h[e.h].vi.Close()
		w.h[e.h] = nil
	case "tick":
		zap.VerifVecCacheCleanup(w.seg)
	case "segclose":
		if err := w.seg.Close(); err != nil {
			return "Close: " + err.Error()
		}
		w.closed = true
	}
	return w.invariants()
}

func (w *cacheWorld) invariants() string {
	if errs := faiss.Ctl.Errors(); len(errs) > 0 {
		return "engine misuse: " + strings.Join(errs, "; ")
	}
	for i, h := range w.h {
		if h != nil && h.idx != 0 && !faiss.Ctl.IsLive(h.idx) {
			return fmt.Sprintf("the native index held by open handle h%d has been released", i)
		}
	}
	if w.closed {
		if n := faiss.Ctl.LiveCount(); n != 0 {
			return fmt.Sprintf("%d native engine objects alive after the segment was closed", n)
		}
	}
	return ""
}

func (w *cacheWorld) key() string {
	var b strings.Builder
	b.WriteString(zap.VerifVecCacheState(w.seg))
	cur := faiss.ObjectID(zap.VerifVecCacheIndex(w.seg, "v"))
	for i, h := range w.h {
		if h == nil {
			fmt.Fprintf(&b, " h%d=-", i)
			continue
		}
		fmt.Fprintf(&b, " h%d=(ex=%v filt=%v current=%v)", i, h.ex, h.filt, h.idx == cur)
	}
	fmt.Fprintf(&b, " closed=%v live=%d", w.closed, faiss.Ctl.LiveCount())
	return b.String()
}

func (w *cacheWorld) dispose() {
	for _, h := range w.h {
		if h != nil {
			h.vi.Close()
		}
	}
	if !w.closed {
		w.seg.Close()
	}
	for _, f := range w.cleanup {
		f()
	}
}

// replayHistory runs a history on a fresh world inside one controlled execution
// (single task; goroutines spawned by the cache run to completion at the spawn
// point; the monitor loop is left out and driven by explicit tick events).
func replayHistory(segKind string, hist []int, evs []cacheEvent) (key string, enabled []bool, failure string) {
	body := func() {
		faiss.Ctl.Reset()
		faiss.Ctl.ForgetLive()
		w, err := newCacheWorld(segKind)
		if err != nil {
			failure = "setup: " + err.Error()
			return
		}
		defer w.dispose()
		for i, ei := range hist {
			if !w.enabled(evs[ei]) {
				failure = fmt.Sprintf("HARNESS: event %d of history not enabled", i)
				return
			}
			if m := w.apply(evs[ei]); m != "" {
				failure = fmt.Sprintf("after event %d (%s): %s", i, evs[ei].name, m)
				return
			}
		}
		key = w.key()
		for _, e := range evs {
			enabled = append(enabled, w.enabled(e))
		}
	}
	r := sched.RunOnce(body, nil, sched.Options{InlineSpawns: true, SpawnFilter: func(src string) bool { return !strings.Contains(src, "monitor") }})
	if r.Failure != "" && failure == "" {
		failure = r.Failure
	}
	if len(r.Faults) > 0 && failure == "" {
		failure = "synchronisation fault: " + strings.Join(r.Faults, "; ")
	}
	return
}

func histString(hist []int, evs []cacheEvent) string {
	var s []string
	for _, e := range hist {
		s = append(s, evs[e].name)
	}
	return strings.Join(s, "; ")
}

func runCacheBFS(c CacheCase, a *run.Acc) {
	evs := cacheEvents()
	seen := map[string]bool{}
	type node struct{ hist []int }
	frontier := []node{{append([]int{}, c.Prefix...)}}
	// the prefix itself
	key, en, fail := replayHistory(c.Seg, c.Prefix, evs)
	a.Transition(1)
	a.Trace(1)
	if strings.HasPrefix(fail, "HARNESS") {
		return // prefix not a valid history
	}
	if fail != "" {
		a.Violation("cache-history", fmt.Sprintf("%s segment, history [%s]:\n%s", c.Seg, histString(c.Prefix, evs), fail))
		return
	}
	_ = en
	seen[key] = true
	a.State(c.Seg + key)
	a.NonTrivial(fmt.Sprint(c.Seg, c.Prefix))
	for depth := len(c.Prefix); depth < c.Depth && len(frontier) > 0; depth++ {
		var next []node
		for _, n := range frontier {
			_, en, _ := replayHistory(c.Seg, n.hist, evs)
			for ei := range evs {
				if ei >= len(en) || !en[ei] {
					continue
				}
				h := append(append([]int{}, n.hist...), ei)
				key, _, fail := replayHistory(c.Seg, h, evs)
				a.Transition(1)
				a.Trace(1)
				a.Eval(1)
				if fail != "" {
					a.Violation("cache-history", fmt.Sprintf("%s segment, history [%s]:\n%s", c.Seg, histString(h, evs), fail))
					a.Outcome("violation")
					return
				}
				if !seen[key] {
					seen[key] = true
					a.State(c.Seg + key)
					next = append(next, node{h})
				}
			}
		}
		frontier = next
	}
	a.Outcome(fmt.Sprintf("ok/bfs/states=%d", min(len(seen), 1000)/100*100))
}

// runCacheCloseConc: the segment is closed WHILE expiry passes run (the monitor goroutine is
// only told to stop by that very Close): one handle opened, used and closed (idle entry), one
// sequential expiry pass, then Close || two expiry passes; all interleavings.
func runCacheCloseConc(c CacheCase, a *run.Acc) {
	body := func(fails *[]string, mu *sync.Mutex) {
		faiss.Ctl.Reset()
		faiss.Ctl.ForgetLive()
		w, err := newCacheWorld(c.Seg)
		if err != nil {
			failf(fails, mu, "setup: %v", err)
			return
		}
		defer func() {
			for _, f := range w.cleanup {
				f()
			}
		}()
		vi, err := w.seg.(segment.VectorSegment).InterpretVectorIndex("v", false, nil)
		if err != nil {
			failf(fails, mu, "InterpretVectorIndex: %v", err)
			return
		}
		q := vecQuery{Field: "v", Q: cacheQuery, K: 2}
		if got, err := runSearch(vi, q); err != nil {
			failf(fails, mu, "%v", err)
		} else if m := checkResult(w.exp, q, got, true); m != "" {
			failf(fails, mu, "%s: %s", q, m)
		}
		vi.Close()
		zap.VerifVecCacheCleanup(w.seg)
		parallel(func() {
			if err := w.seg.Close(); err != nil {
				failf(fails, mu, "segment Close: %v", err)
			}
		}, func() {
			zap.VerifVecCacheCleanup(w.seg)
			zap.VerifVecCacheCleanup(w.seg)
		})
		if sched.Active() == nil {
			// free-running: the cache releases indexes in goroutines of its own; wait for them
			// (the next iteration forgets the live table, a late release would then look like a
			// double free)
			if n := engineLive(); n != 0 {
				failf(fails, mu, "%d native engine objects alive after the segment was closed", n)
			}
		}
		if errs := faiss.Ctl.Errors(); len(errs) > 0 {
			failf(fails, mu, "engine misuse: %s", strings.Join(errs, "; "))
		}
	}
	concPostCheck = func() string {
		if n := faiss.Ctl.LiveCount(); n != 0 {
			return fmt.Sprintf("%d native engine objects alive after the segment was closed and every goroutine ended", n)
		}
		return ""
	}
	defer func() { concPostCheck = nil }()
	res := exploreCase(body, sched.Options{PreemptionBound: -1, EnvBound: 0, MaxExecutions: 400000}, 200, a)
	res.record(a, fmt.Sprint(c))
	a.NonTrivial(fmt.Sprint(c))
	if strings.HasPrefix(res.failure, "HARNESS") {
		a.Note(res.failure)
		a.Capped = true
		return
	}
	if res.failure != "" {
		a.Violation("cache-concurrent", fmt.Sprintf("%s segment, open/search/close, one expiry pass, then segment Close || two expiry passes; schedule %v:\n%s", c.Seg, res.schedule, res.failure))
		return
	}
	a.Outcome("ok/closeconc")
}

func runCacheConc(c CacheCase, a *run.Acc) {
	body := func(fails *[]string, mu *sync.Mutex) {
		faiss.Ctl.Reset()
		faiss.Ctl.ForgetLive()
		w, err := newCacheWorld(c.Seg)
		if err != nil {
			failf(fails, mu, "setup: %v", err)
			return
		}
		defer func() {
			for _, f := range w.cleanup {
				f()
			}
		}()
		open := func(name string, ex []uint32, filt bool) segment.VectorIndex {
			vi, err := w.seg.(segment.VectorSegment).InterpretVectorIndex("v", filt, bitmapOf(ex))
			if err != nil {
				failf(fails, mu, "%s: InterpretVectorIndex: %v", name, err)
				return nil
			}
			return vi
		}
		use := func(name string, step int, vi segment.VectorIndex, ex []uint32, filt bool) {
			qs := []vecQuery{{Field: "v", Q: cacheQuery, K: 2, Except: ex, ReqFilter: filt}}
			if filt {
				// a handle opened for filtering is also searched WITH a filter (documents 1 and 2 eligible: not all, so the doc->vectors map is needed)
				qs = append(qs, vecQuery{Field: "v", Q: cacheQuery, K: 2, Except: ex, ReqFilter: true, Filtered: true, Eligible: []uint64{1, 2}})
			}
			for _, q := range qs {
				got, err := runSearch(vi, q)
				if err != nil {
					failf(fails, mu, "%s: %v", name, err)
				} else if m := checkResult(w.exp, q, got, true); m != "" {
					failf(fails, mu, "%s step %d: %s: %s", name, step, q, m)
				}
			}
		}
		// two rounds of open / search / close (the count drops to the other searcher's between them)
		searcher := func(name string, ex []uint32, filt bool) func() {
			return func() {
				for round := 0; round < 2; round++ {
					vi := open(name, ex, filt)
					if vi == nil {
						return
					}
					use(name, round, vi, ex, filt)
					vi.Close()
				}
			}
		}
		// two OVERLAPPING handles: open, search, open a second one, close the first, search
		// through the second, close it (the count reaches 3 with the other searcher's handle)
		overlapper := func(name string, ex []uint32, filt bool) func() {
			return func() {
				h1 := open(name, ex, filt)
				if h1 == nil {
					return
				}
				use(name, 0, h1, ex, filt)
				h2 := open(name, ex, filt)
				if h2 == nil {
					h1.Close()
					return
				}
				h1.Close()
				use(name, 1, h2, ex, filt)
				h2.Close()
			}
		}
		ticker := func() {
			for i := 0; i < 3; i++ {
				zap.VerifVecCacheCleanup(w.seg)
				yield("between ticks")
			}
		}
		parallel(searcher("searcher A (no exclusion)", nil, false), overlapper("searcher B (except {0}, filtering, overlapping handles)", []uint32{0}, true), ticker)
		// epilogue, sequential: a handle obtained now must survive three idle expiry passes
		// (a reference count left too low by the concurrent phase releases it under the holder)
		if h := open("epilogue", nil, false); h != nil {
			for i := 0; i < 3; i++ {
				zap.VerifVecCacheCleanup(w.seg)
			}
			use("epilogue (after 3 expiry passes while the handle is held)", 0, h, nil, false)
			h.Close()
		}
		if err := w.seg.Close(); err != nil {
			failf(fails, mu, "segment Close: %v", err)
		}
		if errs := faiss.Ctl.Errors(); len(errs) > 0 {
			failf(fails, mu, "engine misuse: %s", strings.Join(errs, "; "))
		}
		if sched.Active() != nil {
			// spawned close tasks are still pending here; they are joined by the scheduler
			// before the execution ends, the live count is checked by the caller
			return
		}
		if n := engineLive(); n != 0 {
			failf(fails, mu, "%d native engine objects alive after the segment was closed", n)
		}
	}
	of := c.Of
	if of == 0 {
		of = 1
	}
	opt := sched.Options{PreemptionBound: c.Bound, EnvBound: 0, MaxExecutions: 400000}
	concPostCheck = func() string {
		if n := faiss.Ctl.LiveCount(); n != 0 {
			return fmt.Sprintf("%d native engine objects alive after the segment was closed and every goroutine ended", n)
		}
		return ""
	}
	defer func() { concPostCheck = nil }()
	res := exploreCaseShard(body, opt, 300, c.Shard, of, a)
	res.record(a, fmt.Sprint(c))
	a.NonTrivial(fmt.Sprint(c))
	if strings.HasPrefix(res.failure, "HARNESS") {
		a.Note(res.failure)
		a.Capped = true
		return
	}
	if res.failure != "" {
		a.Violation("cache-concurrent", fmt.Sprintf("%s segment, searcher A || searcher B || 3 expiry ticks, then segment close; schedule %v, preemption bound %d:\n%s", c.Seg, res.schedule, c.Bound, res.failure))
		return
	}
	a.Outcome("ok/conc")
}

func init() {
	run.Register(&run.Def{
		ID:          "C16",
		Level:       "model_checking",
		Rule:        "(a) explicit-state breadth-first search over the REAL vector index cache (vectors tag, stand-in engine, controlled scheduler with spawned goroutines run at the spawn point, the monitor loop replaced by explicit tick events through the verif hook): one segment (3 documents, one with 3 vectors; in-memory and mmap-opened); events open(except in {nil,{0},{1}}, requiresFiltering in {false,true}; and except = every document) with <= 2 handles open, search(h), searchFiltered(h, eligible in {[1],[0,1,2]}), close(h), tick (one expiry pass), segclose (terminal, only without open handles); a successor is computed by replaying the whole history on a fresh segment plus one event; states are deduplicated by a canonical key (private cache state through the verif hook: per field reference count, hit-tracker average bits and sample, documents covered by the cached id->doc map, presence of the doc->ids map, index present; per handle its exclusion bitmap, filtering flag and whether it holds the currently cached index; engine live count). Invariants in every state: every search through a handle equals the reference for THAT handle's exclusion bitmap (exact top-k oracle); the native index of every open handle is alive; no double free / use after free in the engine; after segclose no native object is alive. (b) stateless model checking under the scheduler: searcher A (no exclusion; two open/search/close rounds) || searcher B (except {0}, filtering; two OVERLAPPING handles: open, search without and with a filter, open, close first, search both ways, close) || 3 expiry ticks, then a sequential epilogue (open; 3 expiry passes while the handle is held; search; close), then segment close; interleavings at RWMutex / atomic / spawn points with a preemption bound of 3 (2 for the mmap-opened segment in quick); (c) the same way, all interleavings of: segment Close || two expiry passes, after open/search/close and one expiry pass (an expiry pass overlapping the close that stops the monitor); plus a free-running -race pass of (b) and (c) with the real goroutines.",
		Assumptions: []string{"the vector engine is the pure-Go stand-in (DESIGN 3.4)", "a client closes a segment only when it holds no open vector index handle", "filtered search is only issued through handles opened with requiresFiltering"},
		Bounds:      map[string]string{"quick": "BFS depth 5 (both segment kinds), concurrent harness bound 3 (in-memory) / 2 (mmap-opened)", "thorough": "BFS depth 7, concurrent harness bound 3 for both"},
		Flavours:    func(string) []string { return []string{"instvec", "racevec"} },
		New:         func() interface{} { return &CacheCase{} },
		Gen: func(tier string, emit func(interface{})) {
			if run.Flavour == "racevec" {
				emit(CacheCase{Kind: "conc", Seg: "mem"})
				emit(CacheCase{Kind: "conc", Seg: "mmap"})
				emit(CacheCase{Kind: "closeconc", Seg: "mem"})
				emit(CacheCase{Kind: "closeconc", Seg: "mmap"})
				return
			}
			depth := 5
			b := 3 // in-memory segment; the mmap-opened one (same cache code) gets b-1 in quick
			if tier == "thorough" {
				depth = 7
			}
			n := len(cacheEvents())
			for _, seg := range []string{"mem", "mmap"} {
				// shard the BFS by its first two events
				for e1 := 0; e1 < n; e1++ {
					emit(CacheCase{Kind: "bfs", Seg: seg, Prefix: []int{e1}, Depth: 1})
					for e2 := 0; e2 < n; e2++ {
						emit(CacheCase{Kind: "bfs", Seg: seg, Prefix: []int{e1, e2}, Depth: depth})
					}
				}
				emit(CacheCase{Kind: "closeconc", Seg: seg})
				bs := b
				if tier == "quick" && seg == "mmap" {
					bs = b - 1
				}
				for s := 0; s < 32; s++ {
					emit(CacheCase{Kind: "conc", Seg: seg, Bound: bs, Shard: s, Of: 32})
				}
			}
		},
		Run: func(ci interface{}, a *run.Acc) {
			c := *ci.(*CacheCase)
			if c.Kind == "bfs" {
				runCacheBFS(c, a)
				return
			}
			if c.Kind == "closeconc" {
				runCacheCloseConc(c, a)
				return
			}
			runCacheConc(c, a)
		},
	})
}
