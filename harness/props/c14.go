//go:build vectors

package props

import (
	"fmt"
	"math/rand"

	segment "github.com/blevesearch/scorch_segment_api/v2"

	"verif/enum"
	"verif/ref"
	"verif/run"
	"verif/spec"
	"verif/zx"
)

// VSCase: vector-search case: a small exact-class batch, or the clustered lattice.
type VSCase struct {
	Small   *enum.VecCase `json:"small,omitempty"`
	Lattice int           `json:"lattice,omitempty"` // >0: number of lattice documents (IVF class)
	Metric  string        `json:"metric,omitempty"`
	Part    int           `json:"part,omitempty"`
	// TwoFields: every lattice document also carries a vector in a second field w (the two
	// fields TOGETHER then pass 1000 vectors while each stays below: each keeps an exact index)
	TwoFields bool `json:"two,omitempty"`
}

func latticeBatch(n int, metric string) spec.Batch {
	var b spec.Batch
	for i := 0; i < n; i++ {
		x, y := float32(i%40), float32(i/40)
		doc := spec.Doc{ID: fmt.Sprintf("l%04d", i)}
		doc.Fields = append(doc.Fields, spec.Field{Name: "v", Kind: spec.Vector, Vec: []float32{x, y}, Dims: 2, Sim: metric, Opt: "recall"})
		if i%97 == 0 {
			// a few documents carry a second vector
			doc.Fields[0].Vec = append(doc.Fields[0].Vec, x+0.5, y+0.5)
		}
		b.Docs = append(b.Docs, doc)
	}
	// one last document WITHOUT a vector (an eligible list naming exactly the documents that
	// have vectors then differs from "all documents of the segment")
	b.Docs = append(b.Docs, spec.Doc{ID: "lnovec", Fields: []spec.Field{{Name: "f", Len: 1, Toks: []spec.Tok{{Term: "x", Freq: 1}}}}})
	return b
}

func runSmallVec(c enum.VecCase, a *run.Acc) {
	b := c.Batch()
	exp := ref.FromBatch(b)
	n := len(b.Docs)
	fail := func(kind, msg string) {
		a.Violation(kind, fmt.Sprintf("%s\nbatch %s", msg, jsonStr(b)))
	}
	if c.NumVecs() >= 2 {
		a.NonTrivial(c.Key())
	}
	for _, except := range subsets32(n) {
		// a fresh segment (and a fresh re-opened one) per exclusion bitmap: C14 quantifies
		// over inputs, not over cache histories (those are C16's)
		rand.Seed(12345)
		mem, _, err := zx.Build(b, c.Mode)
		if err != nil {
			fail("build-error", err.Error())
			return
		}
		opened, path, err := zx.PersistOpen(mem)
		if err != nil {
			mem.Close()
			fail("persist-error", err.Error())
			return
		}
		ok := func() bool {
			for _, t := range []struct {
				name string
				seg  segment.Segment
			}{{"in-memory", mem}, {"re-opened", opened}} {
				if m := checkStats(t.seg, exp); m != "" {
					fail("stats", t.name+": "+m)
					return false
				}
				for _, field := range []string{"v", "w", "zz"} {
					if field != "v" && except != nil {
						continue
					}
					for _, qv := range gridQueries {
						for _, k := range []int64{1, 2, 3, 10} {
							for _, reqFilter := range []bool{false, true} {
								q := vecQuery{Field: field, Q: qv, K: k, Except: except, ReqFilter: reqFilter}
								got, err := search(t.seg, q)
								a.Eval(1)
								if err != nil {
									fail("search-error", fmt.Sprintf("%s: %s: %v", t.name, q, err))
									return false
								}
								if m := checkResult(exp, q, got, true); m != "" {
									fail("search", fmt.Sprintf("%s: %s: %s", t.name, q, m))
									return false
								}
								if !reqFilter || field != "v" {
									continue
								}
								for _, el := range subsets64(n) {
									q := vecQuery{Field: field, Q: qv, K: k, Except: except, ReqFilter: true, Filtered: true, Eligible: el}
									got, err := search(t.seg, q)
									a.Eval(1)
									if err != nil {
										fail("search-error", fmt.Sprintf("%s: %s: %v", t.name, q, err))
										return false
									}
									if m := checkResult(exp, q, got, true); m != "" {
										fail("filtered-search", fmt.Sprintf("%s: %s: %s", t.name, q, m))
										return false
									}
								}
							}
						}
					}
				}
			}
			return true
		}()
		if ok {
			// a third fresh segment whose very FIRST request is a filtered one (the
			// maps a filtered search needs are then built by the loading path itself)
			ok = func() bool {
				first, err := zx.Plugin.Open(path)
				if err != nil {
					fail("open-error", err.Error())
					return false
				}
				defer first.Close()
				for _, el := range subsets64(n) {
					for _, k := range []int64{10, 1} {
						q := vecQuery{Field: "v", Q: gridQueries[len(el)%len(gridQueries)], K: k, Except: except, ReqFilter: true, Filtered: true, Eligible: el}
						got, err := search(first, q)
						a.Eval(1)
						if err != nil {
							fail("search-error", fmt.Sprintf("filtered-first: %s: %v", q, err))
							return false
						}
						if m := checkResult(exp, q, got, true); m != "" {
							fail("filtered-first", fmt.Sprintf("segment whose first request is this filtered search: %s: %s", q, m))
							return false
						}
					}
				}
				return true
			}()
		}
		opened.Close()
		mem.Close()
		zx.Remove(path)
		if !ok {
			return
		}
	}
	if live := engineLive(); live != 0 {
		fail("engine-leak", fmt.Sprintf("%d native engine objects alive after all segments were closed", live))
		return
	}
	if m := engineMisuse(); m != "" {
		fail("engine-misuse", m)
		return
	}
	a.Outcome(fmt.Sprintf("ok/exact/vecs=%d", min(c.NumVecs(), 4)))
}

func runLattice(c VSCase, a *run.Acc) {
	b := latticeBatch(c.Lattice, c.Metric)
	if c.TwoFields {
		for d := range b.Docs {
			if len(b.Docs[d].Fields) > 0 && b.Docs[d].Fields[0].IsVector() {
				v := b.Docs[d].Fields[0].Vec
				b.Docs[d].Fields = append(b.Docs[d].Fields, spec.Field{Name: "w", Kind: spec.Vector, Vec: []float32{v[0] + 100, v[1]}, Dims: 2, Sim: c.Metric, Opt: "recall"})
			}
		}
	}
	exp := ref.FromBatch(b)
	n := len(b.Docs)
	fail := func(kind, msg string) {
		a.Violation(kind, fmt.Sprintf("%s\nlattice of %d documents, metric %s", msg, n, c.Metric))
	}
	rand.Seed(777)
	mem, _, err := zx.Build(b, 1026)
	if err != nil {
		fail("build-error", err.Error())
		return
	}
	defer mem.Close()
	a.NonTrivial(fmt.Sprintf("lattice/%d/%s/%d", c.Lattice, c.Metric, c.Part))
	if m := checkStats(mem, exp); m != "" {
		fail("stats", m)
		return
	}
	exact := len(exp.Vecs["v"].Vecs) < 1000
	if !exact {
		for f := range exp.Vecs {
			if m := everyVectorPresent(mem, exp, f); m != "" {
				fail("search", fmt.Sprintf("field %q: %s", f, m))
				return
			}
		}
	}
	excepts := [][]uint32{nil, {0, 1, 2, 41}}
	var every3 []uint32
	for d := 0; d < n; d += 3 {
		every3 = append(every3, uint32(d))
	}
	excepts = append(excepts, every3)
	mkEl := func(count, stride int) []uint64 {
		var el []uint64
		for d := 0; len(el) < count && d < n; d += stride {
			el = append(el, uint64(d))
		}
		return el
	}
	all := mkEl(n, 1)
	// more than half eligible, with a hole inside AND ineligible documents above the highest eligible one
	holeTop := append(append([]uint64{}, all[:5]...), all[6:3*n/4]...)
	eligibles := [][]uint64{nil, {}, {5}, mkEl(n/2-1, 1), mkEl(n/2+1, 1), mkEl(n/2-3, 2), all[1:], all, all[:len(all)-1], holeTop}
	queries := [][]float32{{0, 0}, {20, 15}, {39.4, 29.6}, {7.5, 3.5}, {1, 2, 3}}
	for ei, except := range excepts {
		// fresh segment per exclusion bitmap (see runSmallVec)
		seg := segment.Segment(mem)
		var cleanup func()
		if ei > 0 {
			rand.Seed(777)
			s2, _, err := zx.Build(b, 1026)
			if err != nil {
				fail("build-error", err.Error())
				return
			}
			seg, cleanup = s2, func() { s2.Close() }
		}
		for _, qv := range queries {
			for _, k := range []int64{1, 10} {
				for eli, el := range eligibles {
					q := vecQuery{Field: "v", Q: qv, K: k, Except: except, ReqFilter: el != nil, Filtered: el != nil, Eligible: el}
					if eli == 0 {
						q.Eligible = nil
					}
					got, err := search(seg, q)
					a.Eval(1)
					if err != nil {
						fail("search-error", fmt.Sprintf("%s: %v", q.short(), err))
						return
					}
					if m := checkResult(exp, q, got, exact); m != "" {
						fail("search", fmt.Sprintf("%s: %s", q.short(), m))
						return
					}
					if len(got) > 0 {
						a.Outcome("clustered/nonempty")
					} else {
						a.Outcome("clustered/empty")
					}
				}
			}
		}
		if cleanup != nil {
			cleanup()
		}
	}
}

func (q vecQuery) short() string {
	el := fmt.Sprint(q.Eligible)
	if len(q.Eligible) > 6 {
		el = fmt.Sprintf("[%d docs: %v...]", len(q.Eligible), q.Eligible[:4])
	}
	ex := fmt.Sprint(q.Except)
	if len(q.Except) > 6 {
		ex = fmt.Sprintf("[%d docs]", len(q.Except))
	}
	return fmt.Sprintf("field=%q q=%v k=%d except=%s filtered=%v eligible=%s", q.Field, q.Q, q.K, ex, q.Filtered, el)
}

func init() {
	run.Register(&run.Def{
		ID:          "C14",
		Level:       "exploration",
		Rule:        "bounded-exhaustive (vectors tag, stand-in engine): every batch of N<=3 (quick) / N<=4 (thorough) documents over a 9-entry vector cell menu (none; one of 5 grid points in dimension 2; two vectors as one concatenated value; two identical vectors; two field instances) x metrics {L2, dot product, cosine}; for EVERY exclusion bitmap a fresh in-memory and a fresh re-opened segment; queries = every grid point + one of wrong dimension; k in {1,2,3,10}; unfiltered search and filtered search with EVERY eligible subset (incl. empty, all, and sets intersecting the exclusion bitmap); requiresFiltering both; fields v, a second 3-dimensional field, an absent field. Exact-class oracle: the returned set of (doc, score) pairs is the image of SOME choice of the k best non-excluded eligible vectors (contains every pair strictly better than the k-th best score, nothing worse, tie count consistent), every pair is a true score of one of that document's vectors; wrong dimension / no vectors -> empty; num_vectors statistic == indexed vectors. Also a 600-document lattice with TWO vector fields (1206 vectors in the batch, fewer than 1000 per field: exact-class oracle on both). Clustered class: a 1200-document lattice (IVF index) with exclusions {none, 4 docs, every third} x eligible sets {none(unfiltered), empty, 1 doc, just below / above one half (both selector kinds), sparse, all-but-one, all, exactly the documents that have a vector (the lattice ends with one document without), three quarters with a hole inside} x k in {1,10}: soundness only (true scores, not excluded, eligible, <= k). Non-trivial = batch with >= 2 vectors.",
		Assumptions: []string{"the vector engine is the pure-Go stand-in (DESIGN 3.4): exact brute force for flat indexes, deterministic IVF; real FAISS numerics are not covered", "vector ids contain 31 random bits; rand is seeded by the harness, id collisions are outside the alphabet"},
		Bounds:      map[string]string{"quick": "N<=3", "thorough": "N<=4 (reduced menu for N=4)"},
		New:         func() interface{} { return &VSCase{} },
		Gen: func(tier string, emit func(interface{})) {
			enum.VecBatches(tier, func(c enum.VecCase) {
				cc := c
				emit(VSCase{Small: &cc})
			})
			for _, m := range enum.Metrics[:2] {
				emit(VSCase{Lattice: 1200, Metric: m})
				emit(VSCase{Lattice: 900, Metric: m})
				emit(VSCase{Lattice: 989, Metric: m})                  // 989 documents + 11 second vectors = exactly 1000 vectors
				emit(VSCase{Lattice: 988, Metric: m})                  // 999 vectors
				emit(VSCase{Lattice: 600, Metric: m, TwoFields: true}) // 606 + 600 vectors in two fields: both exact
			}
		},
		Run: func(ci interface{}, a *run.Acc) {
			c := *ci.(*VSCase)
			if c.Small != nil {
				runSmallVec(*c.Small, a)
				return
			}
			runLattice(c, a)
		},
	})
}
