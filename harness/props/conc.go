package props

import (
	"fmt"
	"os"
	"runtime"
	"strings"
	"sync"
	"time"

	"verif/mc/sched"
	"verif/run"
)

// parallel runs the bodies concurrently: as scheduler tasks inside a controlled
// execution, as free-running goroutines otherwise (race pass).
func parallel(bodies ...func()) {
	if sched.Active() != nil {
		done := 0
		for i, b := range bodies {
			b := b
			i := i
			sched.Spawn(fmt.Sprintf("T%d", i+1), func() {
				b()
				done++
				sched.Observe("T%d finished", i+1)
			})
		}
		sched.Block(func() bool { return done == len(bodies) }, "join of all tasks")
		return
	}
	var wg sync.WaitGroup
	start := make(chan struct{})
	for _, b := range bodies {
		b := b
		wg.Add(1)
		go func() {
			defer wg.Done()
			<-start
			b()
		}()
	}
	close(start)
	wg.Wait()
}

// yield is a scheduling point in controlled executions and a Gosched otherwise.
func yield(desc string) {
	if sched.Active() != nil {
		sched.Yield(desc)
		return
	}
	runtime.Gosched()
}

// failf records a property failure observed inside a task.
func failf(sink *[]string, mu *sync.Mutex, format string, args ...interface{}) {
	msg := fmt.Sprintf(format, args...)
	if sched.Active() != nil {
		sched.Observe("FAIL: %s", msg)
		return
	}
	mu.Lock()
	*sink = append(*sink, msg)
	mu.Unlock()
}

// exploreCase runs a concurrent harness body: under the scheduler it explores every
// interleaving within the bounds; in the race flavour it runs the body free
// `freeRuns` times. It returns the first failure description ("" if none).
type concResult struct {
	executions int
	points     int
	byPreempt  map[int]int
	capped     bool
	failure    string
	schedule   []int
	outcomes   map[string]int
	elapsed    time.Duration
}

func exploreCase(body func(fails *[]string, mu *sync.Mutex), opt sched.Options, freeRuns int, a *run.Acc) (res concResult) {
	return exploreCaseShard(body, opt, freeRuns, 0, 1, a)
}

func firstLine(s string) string {
	if i := strings.IndexByte(s, '\n'); i >= 0 {
		s = s[:i]
	}
	if len(s) > 300 {
		s = s[:300]
	}
	return s
}

// failureOf extracts the failure description of one controlled execution ("" if none).
func failureOf(r sched.Result) string {
	switch {
	case r.Failure != "":
		return r.Failure
	case len(r.Faults) > 0:
		return "synchronisation fault: " + strings.Join(r.Faults, "; ")
	}
	for _, o := range r.Obs {
		if strings.HasPrefix(o, "FAIL: ") {
			return strings.TrimPrefix(o, "FAIL: ")
		}
	}
	return ""
}

// concPostCheck, when set, is evaluated after every controlled execution has ended
// (all tasks, including goroutines spawned by the code under test, have finished).
var concPostCheck func() string

// exploreCaseShard explores one shard of the schedule tree (see sched.ExploreShard).
func exploreCaseShard(body func(fails *[]string, mu *sync.Mutex), opt sched.Options, freeRuns int, shard, nshards int, a *run.Acc) (res concResult) {
	res = concResult{byPreempt: map[int]int{}, outcomes: map[string]int{}}
	t0 := time.Now()
	defer func() { res.elapsed = time.Since(t0) }()
	if !strings.HasPrefix(run.Flavour, "inst") {
		// free-running pass (race detector): failures are collected, races kill the worker
		for i := 0; i < freeRuns; i++ {
			var fails []string
			var mu sync.Mutex
			body(&fails, &mu)
			res.executions++
			if len(fails) > 0 && res.failure == "" {
				res.failure = "free-running execution: " + strings.Join(fails, "; ")
			}
		}
		return res
	}
	if opt.SpawnFilter == nil {
		// timer loops (the vector cache's monitor) block in a real select: they are
		// left out of controlled executions and their work is driven explicitly
		opt.SpawnFilter = func(src string) bool { return !strings.Contains(src, "monitor") }
	}
	wrapped := func() {
		var fails []string
		var mu sync.Mutex
		body(&fails, &mu)
	}
	st := sched.ExploreShard(wrapped, opt, shard, nshards, func(r sched.Result) bool {
		res.points += r.Points
		if os.Getenv("VERIF_PROFILE") == "2" && res.points == r.Points {
			fmt.Fprintln(os.Stderr, strings.Join(r.Describe(), "\n"))
		}
		msg := failureOf(r)
		if msg == "" && concPostCheck != nil {
			msg = concPostCheck()
		}
		res.outcomes[strings.Join(r.Obs, "|")]++
		if msg != "" && res.failure == "" {
			// replay twice before believing it
			r1, same := sched.Replay(wrapped, r.Choices, opt)
			if same {
				_ = r1
				res.failure = msg
			} else {
				// The two replays differ: the outcome of this schedule depends on something that
				// survives between executions (state the code keeps at package level) or that the
				// scheduler does not own. The execution above was nevertheless a complete, valid
				// execution of the real code (no divergence while its prefix was replayed), and
				// its failure is an oracle verdict on that execution - a panic in the code under
				// test, a wrong answer, a deadlock - so it is reported, marked as not replayable.
				// Only failures that are themselves scheduler artefacts stay inconclusive.
				again := 0
				for k := 0; k < 3; k++ {
					rk := sched.RunOnce(wrapped, r.Choices, opt)
					mk := failureOf(rk)
					if mk == "" && concPostCheck != nil {
						mk = concPostCheck()
					}
					if mk != "" && sched.NormObs(mk) == sched.NormObs(msg) {
						again++
					}
				}
				if strings.HasPrefix(msg, "HARNESS") {
					res.failure = "HARNESS: schedule does not replay deterministically: " + fmt.Sprint(r.Choices) + "; the failure seen was: " + firstLine(msg)
				} else {
					res.failure = fmt.Sprintf("%s\n(NOT REPLAYABLE: the same schedule gave this failure in %d of 3 further runs; the outcome depends on state that survives between executions - e.g. package-level state of the code under test - or that the scheduler does not control)", msg, again)
				}
			}
			res.schedule = r.Choices
			return false
		}
		return true
	})
	res.executions = st.Executions
	res.byPreempt = st.ByPreempt
	res.capped = st.Capped
	a.Count("replay_checks", 0)
	return res
}

// record adds an exploration's statistics to the accumulator.
func (r concResult) record(a *run.Acc, key string) {
	if os.Getenv("VERIF_PROFILE") != "" {
		fmt.Fprintf(os.Stderr, "PROFILE %s executions=%d points=%d ms=%d\n", key, r.executions, r.points, r.elapsed.Milliseconds())
	}
	a.Eval(r.executions)
	a.Trace(r.executions)
	a.Transition(r.points)
	for o := range r.outcomes {
		a.State(key + "#" + o)
	}
	for p, n := range r.byPreempt {
		a.Count(fmt.Sprintf("schedules.preemptions=%d", p), n)
	}
	if r.capped {
		a.Capped = true
		a.Note("execution cap reached in " + key)
	}
}
