package props

import (
	"bytes"
	"errors"
	"fmt"
	"io"
	"os"
	"os/signal"
	"syscall"

	"github.com/RoaringBitmap/roaring/v2"
	segment "github.com/blevesearch/scorch_segment_api/v2"
	zap "github.com/blevesearch/zapx/v16"

	"verif/dump"
	"verif/enum"
	"verif/ref"
	"verif/run"
	"verif/shim/vos"
	"verif/shim/vsync"
	"verif/spec"
	"verif/zx"
)

// FaultCase: one (input, operation) pair and a residue class of fault offsets.
type FaultCase struct {
	Input int    `json:"input"`
	Op    string `json:"op"` // writeto-err | writeto-short | persist | merge
	Shard int    `json:"shard"`
	Of    int    `json:"of"`
	Perm  int    `json:"perm,omitempty"` // instrumented flavour: order of the sections (vsync.MapPerm)
}

// faultInputs: build inputs 0..3, merge inputs 4..7 (each a list of batches + drops).
type faultInput struct {
	name    string
	batches []spec.Batch
	drops   [][]int // per batch; nil = nil bitmap
}

func faultInputs() []faultInput {
	return append(append(faultBuildInputs(), faultMergeInputs()...), extFaultInputs()...)
}

// numBaseFaultInputs: the inputs of the quick tier; the thorough tier adds extFaultInputs.
func numBaseFaultInputs() int { return len(faultBuildInputs()) + len(faultMergeInputs()) }

// extFaultInputs (thorough tier): every item of the text and synonym menus as a build,
// and every ordered pair of text-menu items (nothing dropped; first document of the first
// and last document of the second input dropped) and of synonym-menu items as a merge.
func extFaultInputs() []faultInput {
	return append(extBuildInputs(), extMergeInputs()...)
}

func extBuildInputs() []faultInput {
	var rv []faultInput
	for i, b := range enum.TextMenu() {
		rv = append(rv, faultInput{fmt.Sprintf("build of text menu item %d", i), []spec.Batch{b}, nil})
	}
	for i, b := range enum.SynMenu() {
		rv = append(rv, faultInput{fmt.Sprintf("build of synonym menu item %d", i), []spec.Batch{b}, nil})
	}
	return rv
}

func extMergeInputs() []faultInput {
	var rv []faultInput
	tm, sm := enum.TextMenu(), enum.SynMenu()
	for i, x := range tm {
		for j, y := range tm {
			rv = append(rv, faultInput{fmt.Sprintf("merge of text menu items %d,%d", i, j), []spec.Batch{x, y}, [][]int{nil, nil}})
			if len(x.Docs) > 0 && len(y.Docs) > 0 {
				rv = append(rv, faultInput{fmt.Sprintf("merge of text menu items %d,%d with deletions", i, j), []spec.Batch{x, y}, [][]int{{0}, {len(y.Docs) - 1}}})
			}
		}
	}
	for i, x := range sm {
		for j, y := range sm {
			rv = append(rv, faultInput{fmt.Sprintf("merge of synonym menu items %d,%d", i, j), []spec.Batch{x, y}, [][]int{nil, {}}})
		}
	}
	return rv
}

func faultBuildInputs() []faultInput {
	tm := enum.TextMenu()
	sm := enum.SynMenu()
	return []faultInput{
		{"small", []spec.Batch{tm[1]}, nil},
		{"multi-field with doc values", []spec.Batch{tm[6]}, nil},
		{"synonyms", []spec.Batch{sm[3]}, nil},
		{"empty", []spec.Batch{{}}, nil},
		{"composite field, overlapping names", []spec.Batch{tm[4]}, nil},
		{"varint-boundary values", []spec.Batch{tm[7]}, nil},
		{"stored value larger than the write buffer (6000 bytes)", []spec.Batch{enum.BigCase{Size: 6000, Mode: 1026}.Batch()}, nil},
	}
}

func faultMergeInputs() []faultInput {
	tm := enum.TextMenu()
	sm := enum.SynMenu()
	return []faultInput{
		{"merge of two segments", []spec.Batch{tm[2], tm[3]}, [][]int{nil, nil}},
		{"merge with deletions", []spec.Batch{tm[2], tm[6]}, [][]int{{0}, {1, 2}}},
		{"merge of synonym segments", []spec.Batch{sm[0], sm[1]}, [][]int{nil, {1}}},
		{"merge with overlapping fields", []spec.Batch{tm[4], tm[5], tm[1]}, [][]int{nil, nil, nil}},
		{"merge without survivors", []spec.Batch{tm[2], tm[1]}, [][]int{{0, 1}, {0}}},
		{"merge with varint-boundary values (byte-copy path)", []spec.Batch{tm[7], tm[3]}, [][]int{nil, nil}},
		{"merge of three-term thesauri (several term changes inside one thesaurus)", []spec.Batch{sm[6], sm[0], sm[6]}, [][]int{nil, nil, {0}}},
	}
}

// failingWriter fails at byte offset limit: mode "err" writes what fits and returns
// (short count, error); mode "atomic" refuses the whole write that would cross the
// limit and returns (0, error). (A short count with a nil error would violate the
// io.Writer contract: bufio.Writer may then loop forever - not a legal environment.)
type failingWriter struct {
	buf   bytes.Buffer
	limit int
	short bool // "atomic" mode
	hit   bool
}

var errInjected = errors.New("injected write failure")

func (w *failingWriter) Write(p []byte) (int, error) {
	room := w.limit - w.buf.Len()
	if room >= len(p) {
		return w.buf.Write(p)
	}
	if room < 0 {
		room = 0
	}
	w.hit = true
	if w.short {
		w.limit = w.buf.Len() // nothing more is ever accepted
		return 0, errInjected
	}
	w.buf.Write(p[:room])
	return room, errInjected
}

var xfszOnce bool

// withFileSizeLimit runs f with RLIMIT_FSIZE lowered to n (writes beyond byte n
// of any file are torn at n and fail with EFBIG). Nothing else may write files
// while the limit is in force.
func withFileSizeLimit(n int, f func()) error {
	if !xfszOnce {
		signal.Ignore(syscall.SIGXFSZ)
		xfszOnce = true
	}
	var old syscall.Rlimit
	if err := syscall.Getrlimit(syscall.RLIMIT_FSIZE, &old); err != nil {
		return err
	}
	lim := syscall.Rlimit{Cur: uint64(n), Max: old.Max}
	if err := syscall.Setrlimit(syscall.RLIMIT_FSIZE, &lim); err != nil {
		return err
	}
	defer syscall.Setrlimit(syscall.RLIMIT_FSIZE, &old)
	f()
	return nil
}

type faultEnv struct {
	in      faultInput
	segs    []segment.Segment
	exp     *ref.Content
	expMaps [][]uint64
	bms     []*roaring.Bitmap
	done    func()
}

func newFaultEnv(in faultInput) (*faultEnv, error) {
	env := &faultEnv{in: in}
	var cleanup []func()
	env.done = func() {
		for i := len(cleanup) - 1; i >= 0; i-- {
			cleanup[i]()
		}
	}
	var refs []*ref.Content
	for _, b := range in.batches {
		s, _, err := zx.Build(b, 1026)
		if err != nil {
			return env, err
		}
		cleanup = append(cleanup, func() { s.Close() })
		if in.drops != nil && len(env.segs)%2 == 1 {
			// every second input of a merge is an mmap-OPENED segment (it carries a reference
			// count, which a failed or cancelled merge must leave as it found it)
			o, path, err := zx.PersistOpen(s)
			if path != "" {
				p := path
				cleanup = append(cleanup, func() { zx.Remove(p) })
			}
			if err != nil {
				return env, err
			}
			cleanup = append(cleanup, func() { o.Close() })
			env.segs = append(env.segs, o)
		} else {
			env.segs = append(env.segs, s)
		}
		refs = append(refs, ref.FromBatch(b))
	}
	if in.drops == nil {
		env.exp = refs[0]
		return env, nil
	}
	drops := make([][]bool, len(refs))
	for i, d := range in.drops {
		if d == nil {
			env.bms = append(env.bms, nil)
			continue
		}
		bm := roaring.New()
		drops[i] = make([]bool, refs[i].Count)
		for _, x := range d {
			bm.Add(uint32(x))
			drops[i][x] = true
		}
		env.bms = append(env.bms, bm)
	}
	env.exp, env.expMaps = ref.FromMerge(refs, drops)
	return env, nil
}

// refsLeaked reports an opened input whose reference count is not 1 any more ("" if none).
func (env *faultEnv) refsLeaked() string {
	for i, s := range env.segs {
		if r := zap.VerifSegmentRefs(s); r != -1 && r != 1 {
			return fmt.Sprintf("input %d (an opened segment) now has reference count %d, was 1 before the call: its holder's Close will not release it", i, r)
		}
	}
	return ""
}

// checkComplete checks that the file at path is a complete, correct segment.
func checkComplete(path string, exp *ref.Content, mode uint32) string {
	b, err := os.ReadFile(path)
	if err != nil {
		return "success reported but the file cannot be read: " + err.Error()
	}
	if m := CheckFile(b, exp.Count, mode); m != "" {
		return "success reported but " + m
	}
	o, err := zx.Plugin.Open(path)
	if err != nil {
		return "success reported but Open fails: " + err.Error()
	}
	defer o.Close()
	got, err := dump.Segment(o, dump.UniverseOf(exp))
	if err != nil {
		return "success reported but reading fails: " + err.Error()
	}
	if d := zx.Compare(exp, got, ref.Sections{Meta: true, Postings: true, Stored: true, DV: true, Thes: true, NoDVList: true}); d != "" {
		return "success reported but the content differs:\n" + d
	}
	return ""
}

func runC17(ci interface{}, a *run.Acc) {
	c := *ci.(*FaultCase)
	in := faultInputs()[c.Input]
	vsync.MapPerm = c.Perm
	defer func() { vsync.MapPerm = 0 }()
	env, err := newFaultEnv(in)
	defer env.done()
	if err != nil {
		a.Violation("setup-error", err.Error())
		return
	}
	fail := func(kind, msg string) {
		a.Violation(kind, fmt.Sprintf("input %q, operation %s: %s", in.name, c.Op, msg))
	}
	oldBuf := zap.DefaultFileMergerBufferSize
	zap.DefaultFileMergerBufferSize = 16
	defer func() { zap.DefaultFileMergerBufferSize = oldBuf }()

	switch c.Op {
	case "handle":
		runC17Handle(c, in, env, a, fail)
	case "writeto-err", "writeto-short":
		wt := env.segs[0].(io.WriterTo)
		var full bytes.Buffer
		n, err := wt.WriteTo(&full)
		if err != nil || int(n) != full.Len() {
			fail("nofault", fmt.Sprintf("fault-free WriteTo: n=%d len=%d err=%v", n, full.Len(), err))
			return
		}
		if c.Shard == 0 {
			// fault-free: same bytes as Persist, complete file
			path := zx.TempPath("c17")
			defer zx.Remove(path)
			if err := env.segs[0].(segment.UnpersistedSegment).Persist(path); err != nil {
				fail("nofault", "fault-free Persist: "+err.Error())
				return
			}
			pb, _ := os.ReadFile(path)
			if !bytes.Equal(pb, full.Bytes()) {
				fail("bytes-differ", "WriteTo and Persist bytes differ")
				return
			}
			if m := checkComplete(path, env.exp, 1026); m != "" {
				fail("incomplete-success", m)
				return
			}
			a.Outcome("nofault-ok")
		}
		for off := c.Shard; off < full.Len(); off += c.Of {
			w := &failingWriter{limit: off, short: c.Op == "writeto-short"}
			_, err := wt.WriteTo(w)
			a.Eval(1)
			a.NonTrivial(fmt.Sprintf("%d/%s/%d", c.Input, c.Op, off))
			if !w.hit {
				// the size of the output depends on the order in which zapx happens to lay out
				// its sections (Go map order: offsets change the length of varints), so this
				// run's output may be shorter than the recorded one and never reach the fault
				// offset: then it must simply be a complete, correct output
				if err != nil {
					fail("spurious-error", fmt.Sprintf("no write failed (fault offset %d not reached) but WriteTo returned %v", off, err))
					return
				}
				if m := CheckFile(w.buf.Bytes(), env.exp.Count, 1026); m != "" {
					fail("incomplete-success", fmt.Sprintf("fault offset %d not reached, WriteTo returned nil, but %s", off, m))
					return
				}
				a.Outcome("fault-not-reached(shorter layout)")
				continue
			}
			if err == nil {
				fail("silent-failure", fmt.Sprintf("the destination failed at byte offset %d of %d but WriteTo returned nil", off, full.Len()))
				a.Outcome("silent")
				return
			}
			a.Outcome("error-reported")
		}
	case "persist", "merge":
		var op func(path string) error
		var gotMaps [][]uint64
		var gotSize uint64
		if c.Op == "persist" {
			if in.drops != nil {
				return
			}
			op = func(path string) error { return env.segs[0].(segment.UnpersistedSegment).Persist(path) }
		} else {
			if in.drops == nil {
				return
			}
			op = func(path string) (err error) {
				gotMaps, gotSize, err = zx.Plugin.Merge(env.segs, env.bms, path, nil, nil)
				return err
			}
		}
		path := zx.TempPath("c17")
		if err := op(path); err != nil {
			fail("nofault", "fault-free run failed: "+err.Error())
			return
		}
		size := int(zx.FileSize(path))
		if c.Shard == 0 {
			mode := uint32(1026)
			if m := checkComplete(path, env.exp, mode); m != "" {
				fail("incomplete-success", m)
				return
			}
			if c.Op == "merge" {
				if m := zx.CheckMaps(env.expMaps, gotMaps); m != "" {
					fail("maps", m)
					return
				}
				if int(gotSize) != size {
					fail("size", fmt.Sprintf("Merge reported %d bytes, file has %d", gotSize, size))
					return
				}
			}
			a.Outcome("nofault-ok")
			// the same operation onto a path that already holds a LONGER file (left by an earlier
			// run): success must still mean a complete file of exactly the reported size
			p2 := zx.TempPath("c17pre")
			if err := os.WriteFile(p2, bytes.Repeat([]byte{0xa5}, size+4096), 0600); err != nil {
				a.Note("cannot create the pre-existing file: " + err.Error())
			} else {
				err := op(p2)
				if err != nil {
					fail("nofault", "run onto an existing file failed: "+err.Error())
					zx.Remove(p2)
					return
				}
				m := checkComplete(p2, env.exp, mode)
				sz := zx.FileSize(p2)
				zx.Remove(p2)
				if m != "" {
					fail("incomplete-success", "destination path held a longer file before the call: "+m)
					return
				}
				if c.Op == "merge" && int64(gotSize) != sz {
					fail("size", fmt.Sprintf("destination path held a longer file before the call: Merge reported %d bytes, file has %d", gotSize, sz))
					return
				}
			}
		}
		zx.Remove(path)
		for pass := 0; pass < 2; pass++ {
			for off := c.Shard; off < size; off += c.Of {
				p := zx.TempPath("c17f")
				if pass == 1 {
					// second pass: an older, longer file already sits at the destination (written
					// before the size limit is in force)
					os.WriteFile(p, bytes.Repeat([]byte{0x5a}, size+64), 0600)
				}
				var opErr error
				if err := withFileSizeLimit(off, func() { opErr = op(p) }); err != nil {
					a.Note("cannot set RLIMIT_FSIZE: " + err.Error())
					return
				}
				a.Eval(1)
				a.NonTrivial(fmt.Sprintf("%d/%s/%d/%d", c.Input, c.Op, off, pass))
				st, statErr := os.Stat(p)
				if opErr == nil {
					// success under a size limit is legitimate only if this run's layout is
					// shorter than the limit (see above): the file must then be complete and correct
					if statErr == nil && st.Size() <= int64(off) {
						if m := checkComplete(p, env.exp, 1026); m == "" {
							zx.Remove(p)
							a.Outcome("fault-not-reached(shorter layout)")
							continue
						}
					}
					msg := fmt.Sprintf("writes beyond byte %d failed (EFBIG; fault-free size %d) but the operation returned nil", off, size)
					if statErr == nil {
						msg += fmt.Sprintf("; an incomplete file of %d bytes is left", st.Size())
					}
					zx.Remove(p)
					fail("silent-failure", msg)
					a.Outcome("silent")
					return
				}
				if statErr == nil {
					zx.Remove(p)
					fail("file-left", fmt.Sprintf("writes beyond byte %d of %d failed and the operation returned %q, but a file of %d bytes is left at the path", off, size, opErr, st.Size()))
					a.Outcome("file-left")
					return
				}
				if m := env.refsLeaked(); m != "" {
					fail("input-reference-leaked", fmt.Sprintf("writes beyond byte %d failed, the operation returned %q: %s", off, opErr, m))
					return
				}
				a.Outcome("error-and-no-file")
			}
		}
	}
}

func init() {
	run.Register(&run.Def{
		ID:          "C17",
		Level:       "fault_enumeration",
		Rule:        "deviation enumeration on the real write paths: for each of 13 inputs (builds: small, multi-field with doc values, synonyms, empty batch, composite field, varint-boundary values, a stored value larger than the write buffer; merges of 2-3 segments with and without deletions, synonyms, overlapping field lists, without survivors, byte-copy path with varint-boundary values): WriteTo(w) with w failing at EVERY byte offset 0..len-1, once as (short count, error) and once as an all-or-nothing writer returning (0, error) for the write that would cross the offset; Persist(path) and Merge(...,path) under RLIMIT_FSIZE = N for EVERY N in [0, size) (a real torn write at byte N followed by EFBIG; DefaultFileMergerBufferSize = 16 so that flush boundaries are dense); plus the fault-free run of each; in the instrumented flavour (package os replaced by a shim in the write paths) also the failure of the n-th Write call on the file handle for EVERY n, of Sync and of Close; the whole enumeration is repeated in the instrumented flavour under both orders in which the two sections can be laid out (in the plain flavour the order is whatever the Go runtime picks). Every fault-free and every faulty Persist / Merge is also run onto a path that already holds an older, longer file. Oracle: every fault yields a non-nil error and, for the path-based operations, no file at the path; the fault-free run yields identical Persist/WriteTo bytes, a footer with count/chunk mode/version 16/CRC-32 (independent decoder), re-opens to the reference content, and Merge's maps and size are right. Non-trivial = one (input, operation, fault offset) whose fault was actually triggered.",
		Assumptions: []string{"Sync / Close / n-th-Write-call failures of the file handle are injected through a build-time replacement of package os in the write paths (instrumented flavour)", "the size of an output depends on the order in which sections are laid out (Go map order changes varint lengths of offsets): a run whose output is shorter than the fault offset is accepted iff it is a complete correct output", "fault runs use fresh paths; the fault-free run is also repeated onto a path that holds a longer file"},
		Bounds:      map[string]string{"quick": "14 inputs, every byte offset of every output (2 legal WriteTo failure modes; Persist for the 7 build inputs; Merge for the 7 merge inputs), random section order + both section orders", "thorough": "the 14 inputs plus 17 more builds (every text / synonym menu item) and 239 more merges (every ordered pair of text menu items without and with deletions, every ordered pair of synonym menu items): every byte offset of every output, handle faults at every Write call"},
		Flavours:    func(string) []string { return []string{"plain", "inst"} },
		New:         func() interface{} { return &FaultCase{} },
		Gen: func(tier string, emit func(interface{})) {
			const of = 8
			perms := 1
			if run.Flavour == "inst" {
				perms = 2 // both orders of the two sections
			}
			for perm := 0; perm < perms; perm++ {
				for i, in := range faultInputs() {
					if tier == "quick" && i >= numBaseFaultInputs() {
						break
					}
					isBuild := in.drops == nil
					for _, op := range []string{"writeto-err", "writeto-short", "persist", "merge"} {
						if !isBuild && op != "merge" {
							continue
						}
						if isBuild && op == "merge" {
							continue
						}
						for s := 0; s < of; s++ {
							emit(FaultCase{Input: i, Op: op, Shard: s, Of: of, Perm: perm})
						}
					}
					if run.Flavour == "inst" {
						emit(FaultCase{Input: i, Op: "handle", Perm: perm})
					}
				}
			}
		},
		Run: runC17,
	})
}

// runC17Handle: faults of the file handle itself (instrumented flavour: package os is
// replaced by verif/shim/vos in the write paths): the n-th Write call for every n, Sync,
// Close. Each must give an error and leave no file.
func runC17Handle(c FaultCase, in faultInput, env *faultEnv, a *run.Acc, fail func(kind, msg string)) {
	var op func(path string) error
	if in.drops == nil {
		op = func(path string) error { return env.segs[0].(segment.UnpersistedSegment).Persist(path) }
	} else {
		op = func(path string) (err error) {
			_, _, err = zx.Plugin.Merge(env.segs, env.bms, path, nil, nil)
			return err
		}
	}
	vos.SetPlan(vos.Plan{})
	path := zx.TempPath("c17h")
	if err := op(path); err != nil {
		fail("nofault", "fault-free run failed: "+err.Error())
		return
	}
	zx.Remove(path)
	log := vos.Log()
	nw := vos.Writes()
	opened := false
	for _, l := range log {
		opened = opened || l == "open"
	}
	if !opened {
		a.Note("the write paths do not open their file through the os shim in this build: handle faults not injected")
		return
	}
	type fault struct {
		name string
		plan vos.Plan
	}
	faults := []fault{{"Sync fails", vos.Plan{FailSync: true}}, {"Close fails", vos.Plan{FailClose: true}}}
	for k := 1; k <= nw; k++ {
		faults = append(faults, fault{fmt.Sprintf("Write call #%d of %d fails", k, nw), vos.Plan{FailWrite: k}})
	}
	for _, f := range faults {
		p := zx.TempPath("c17h")
		vos.SetPlan(f.plan)
		err := op(p)
		calls := vos.Log()
		vos.SetPlan(vos.Plan{})
		a.Eval(1)
		a.NonTrivial(fmt.Sprintf("%d/handle/%s/%d", c.Input, f.name, c.Perm))
		st, statErr := os.Stat(p)
		if err == nil {
			// a shorter layout may need fewer Write calls than the recorded run
			if f.plan.FailWrite > 0 && countCalls(calls, "write") < f.plan.FailWrite {
				if m := checkComplete(p, env.exp, 1026); m == "" {
					zx.Remove(p)
					a.Outcome("fault-not-reached(shorter layout)")
					continue
				}
			}
			msg := fmt.Sprintf("%s, but the operation returned nil", f.name)
			if statErr == nil {
				msg += fmt.Sprintf("; a file of %d bytes is left", st.Size())
			}
			zx.Remove(p)
			fail("silent-failure", msg)
			a.Outcome("silent")
			return
		}
		if statErr == nil {
			zx.Remove(p)
			fail("file-left", fmt.Sprintf("%s and the operation returned %q, but a file of %d bytes is left at the path", f.name, err, st.Size()))
			a.Outcome("file-left")
			return
		}
		if m := env.refsLeaked(); m != "" {
			fail("input-reference-leaked", m)
			return
		}
		a.Outcome("error-and-no-file")
	}
}

func countCalls(log []string, what string) int {
	n := 0
	for _, l := range log {
		if l == what {
			n++
		}
	}
	return n
}
