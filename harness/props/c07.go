package props

import (
	"fmt"
	"sort"

	"github.com/RoaringBitmap/roaring/v2"
	segment "github.com/blevesearch/scorch_segment_api/v2"

	"verif/dump"
	"verif/ref"
	"verif/run"
	"verif/spec"
	"verif/zx"
)

// PostCase: one postings set P over N documents in one segment variant; the run
// enumerates every exclusion set, flag combination and call sequence.
type PostCase struct {
	Kind    string `json:"kind"` // "seq" | "replace" | "reuse" | "large"
	N       int    `json:"n"`
	P       int    `json:"p"`       // bit mask of documents containing term x
	Chunk   uint32 `json:"chunk"`   // chunk mode (= chunk size for <=1024)
	Pattern string `json:"pattern"` // "mixed" (freq 1..3, locations on even docs) | "plain" (freq 1, no locations: single-hit eligible) | "zero" (freq 0 with locations on odd docs)
	Seg     string `json:"seg"`     // mem | mmap | merged
	Card    int    `json:"card,omitempty"`
}

func postBatch(c PostCase) spec.Batch {
	var b spec.Batch
	for d := 0; d < c.N; d++ {
		f := spec.Field{Name: "a", Len: d + 1}
		in := c.P&(1<<uint(d)) != 0
		if c.Kind == "large" {
			in = d < c.Card
		}
		if in {
			t := spec.Tok{Term: "x", Freq: 1}
			if c.Pattern == "zero" {
				// frequency 0 WITH locations on odd documents (freq/norm skipped, term vectors
				// kept), frequency 2 with locations on even ones
				t.Freq = 2 * ((d + 1) % 2)
				for i := 0; i < 1+d%2; i++ {
					t.Locs = append(t.Locs, spec.Loc{Pos: i + 1 + d, Start: i, End: i + d + 1, AP: []uint64{uint64(d), uint64(i)}})
				}
			}
			if c.Pattern == "mixed" {
				t.Freq = 1 + d%3
				if d%2 == 0 {
					for i := 0; i < t.Freq; i++ {
						t.Locs = append(t.Locs, spec.Loc{Pos: i + 1 + d, Start: i, End: i + d, AP: []uint64{uint64(d)}})
					}
				}
			}
			f.Toks = append(f.Toks, t)
		}
		if c.Pattern == "mixed" || d%2 == 1 {
			f.Toks = append(f.Toks, spec.Tok{Term: "y", Freq: 1, Locs: []spec.Loc{{Pos: 1, Start: 0, End: 1}}})
		}
		b.Docs = append(b.Docs, spec.Doc{ID: fmt.Sprintf("d%04d", d), Fields: []spec.Field{f}})
	}
	return b
}

// postSegment builds the segment variant of the case.
func postSegment(c PostCase) (segment.Segment, *ref.Content, func(), error) {
	b := postBatch(c)
	exp := ref.FromBatch(b)
	var cleanup []func()
	done := func() {
		for i := len(cleanup) - 1; i >= 0; i-- {
			cleanup[i]()
		}
	}
	mem, _, err := zx.Build(b, c.Chunk)
	if err != nil {
		return nil, nil, done, err
	}
	cleanup = append(cleanup, func() { mem.Close() })
	switch c.Seg {
	case "mem":
		return mem, exp, done, nil
	case "mmap":
		o, path, err := zx.PersistOpen(mem)
		cleanup = append(cleanup, func() { zx.Remove(path) })
		if err != nil {
			return nil, nil, done, err
		}
		cleanup = append(cleanup, func() { o.Close() })
		return o, exp, done, nil
	case "merged":
		path, _, _, err := zx.Merge([]segment.Segment{mem}, []*roaring.Bitmap{nil}, c.Chunk)
		cleanup = append(cleanup, func() { zx.Remove(path) })
		if err != nil {
			return nil, nil, done, err
		}
		o, err := zx.Plugin.Open(path)
		if err != nil {
			return nil, nil, done, err
		}
		cleanup = append(cleanup, func() { o.Close() })
		return o, exp, done, nil
	}
	return nil, nil, done, fmt.Errorf("unknown segment kind %q", c.Seg)
}

type call struct {
	Adv bool
	T   uint64
}

func (c call) String() string {
	if c.Adv {
		return fmt.Sprintf("Advance(%d)", c.T)
	}
	return "Next"
}

// hitEqual compares the requested details of a returned posting with the reference hit.
func hitEqual(p segment.Posting, want ref.Hit, freq, norm, locs bool) string {
	if p.Number() != want.Doc {
		return fmt.Sprintf("returned doc %d, want %d", p.Number(), want.Doc)
	}
	g := dump.HitOf(p)
	if freq && g.Freq != want.Freq {
		return fmt.Sprintf("doc %d: frequency %d, want %d", want.Doc, g.Freq, want.Freq)
	}
	if norm && want.Freq > 0 && p.Norm() != want.Norm {
		return fmt.Sprintf("doc %d: norm %v, want %v", want.Doc, p.Norm(), want.Norm)
	}
	if locs {
		if fmt.Sprint(g.Locs) != fmt.Sprint(want.Locs) {
			return fmt.Sprintf("doc %d: locations %v, want %v", want.Doc, g.Locs, want.Locs)
		}
	}
	return ""
}

// seqExplorer enumerates every maximal Next/Advance call sequence on iterators
// produced by mk (a fresh iterator per path: iterators cannot be cloned, so a
// successor is the replayed prefix plus one call).
type seqExplorer struct {
	mk      func() (segment.PostingsIterator, error)
	hits    []ref.Hit // expected non-excluded hits, ascending
	n       uint64    // number of documents
	f, m, l bool
	calls   int64
	paths   int64
	fail    string
}

func (s *seqExplorer) expect(last int64, c call) (int, bool) {
	for i, h := range s.hits {
		if int64(h.Doc) <= last {
			continue
		}
		if c.Adv && h.Doc < c.T {
			continue
		}
		return i, true
	}
	return 0, false
}

// runPath replays prefix and returns the last returned doc (-1 none) and whether exhausted.
func (s *seqExplorer) runPath(path []call) (last int64, exhausted bool) {
	it, err := s.mk()
	if err != nil {
		s.fail = fmt.Sprintf("creating iterator: %v", err)
		return
	}
	last = -1
	for i, c := range path {
		var p segment.Posting
		if c.Adv {
			p, err = it.Advance(c.T)
		} else {
			p, err = it.Next()
		}
		s.calls++
		if err != nil {
			s.fail = fmt.Sprintf("call sequence %v: call %d returned error %v", path[:i+1], i, err)
			return
		}
		wi, ok := s.expect(last, c)
		if exhausted {
			ok = false
		}
		if !ok {
			if p != nil {
				s.fail = fmt.Sprintf("call sequence %v: last call returned doc %d, want nil", path[:i+1], p.Number())
				return
			}
			exhausted = true
			continue
		}
		if p == nil {
			s.fail = fmt.Sprintf("call sequence %v: last call returned nil, want doc %d", path[:i+1], s.hits[wi].Doc)
			return
		}
		if m := hitEqual(p, s.hits[wi], s.f, s.m, s.l); m != "" {
			s.fail = fmt.Sprintf("call sequence %v: %s", path[:i+1], m)
			return
		}
		last = int64(s.hits[wi].Doc)
	}
	return
}

func (s *seqExplorer) explore(path []call, afterNil int) {
	if s.fail != "" {
		return
	}
	last, exhausted := s.runPath(path)
	if s.fail != "" {
		return
	}
	if exhausted {
		if afterNil >= 1 {
			s.paths++
			return
		}
		// after nil every further call must keep returning nil: one more of each kind
		s.explore(append(append([]call{}, path...), call{}), afterNil+1)
		if uint64(last+1) <= s.n {
			s.explore(append(append([]call{}, path...), call{Adv: true, T: s.n}), afterNil+1)
		}
		return
	}
	s.explore(append(append([]call{}, path...), call{}), 0)
	for t := uint64(last + 1); t <= s.n; t++ {
		s.explore(append(append([]call{}, path...), call{Adv: true, T: t}), 0)
	}
	// a target beyond 32 bits whose low 32 bits name the next document (document numbers are
	// uint64 in the API, 32 bits wide inside): nothing is at or after it
	s.explore(append(append([]call{}, path...), call{Adv: true, T: 1<<32 + uint64(last+1)}), 0)
}

func hitsOf(exp *ref.Content, field, term string, except map[uint32]bool) []ref.Hit {
	var rv []ref.Hit
	for _, h := range exp.Postings[field][term] {
		if !except[uint32(h.Doc)] {
			rv = append(rv, h)
		}
	}
	return rv
}

func maskBitmap(mask int, n int) (*roaring.Bitmap, map[uint32]bool) {
	if mask == 0 {
		return nil, map[uint32]bool{}
	}
	bm := roaring.New()
	m := map[uint32]bool{}
	for d := 0; d < n; d++ {
		if mask&(1<<uint(d)) != 0 {
			bm.Add(uint32(d))
			m[uint32(d)] = true
		}
	}
	return bm, m
}

func docsOf(hs []ref.Hit) []uint32 {
	rv := []uint32{}
	for _, h := range hs {
		rv = append(rv, uint32(h.Doc))
	}
	return rv
}

// checkCreation checks Count, ActualBitmap and DocNum1Hit right after creation.
func checkCreation(pl segment.PostingsList, it segment.PostingsIterator, hits []ref.Hit) string {
	if pl.Count() != uint64(len(hits)) {
		return fmt.Sprintf("Count() = %d, want %d", pl.Count(), len(hits))
	}
	o, ok := it.(segment.OptimizablePostingsIterator)
	if !ok {
		return fmt.Sprintf("%T is not an OptimizablePostingsIterator", it)
	}
	d1, is1 := o.DocNum1Hit()
	abm := o.ActualBitmap()
	if is1 {
		if len(hits) != 1 || hits[0].Doc != d1 {
			return fmt.Sprintf("DocNum1Hit() = (%d,true) but the non-excluded hits are %v", d1, docsOf(hits))
		}
		return ""
	}
	if abm == nil {
		if len(hits) != 0 {
			return fmt.Sprintf("no actual bitmap and no single hit, but the non-excluded hits are %v", docsOf(hits))
		}
		return ""
	}
	if got := abm.ToArray(); fmt.Sprint(got) != fmt.Sprint(docsOf(hits)) {
		return fmt.Sprintf("ActualBitmap() = %v, want %v", got, docsOf(hits))
	}
	return ""
}

func runC07(ci interface{}, a *run.Acc) {
	c := *ci.(*PostCase)
	seg, exp, done, err := postSegment(c)
	defer done()
	if err != nil {
		a.Violation("setup-error", fmt.Sprintf("%v\n%s", err, jsonStr(c)))
		return
	}
	dict, err := seg.Dictionary("a")
	if err != nil {
		a.Violation("dictionary-error", err.Error())
		return
	}
	fail := func(kind, msg string) {
		a.Violation(kind, fmt.Sprintf("%s\ncase %s", msg, jsonStr(c)))
	}
	switch c.Kind {
	case "seq", "replace":
		for emask := 0; emask < 1<<uint(c.N); emask++ {
			ebm, eset := maskBitmap(emask, c.N)
			hits := hitsOf(exp, "a", "x", eset)
			if len(hits) >= 2 || (emask != 0 && len(exp.Postings["a"]["x"]) >= 2) {
				a.NonTrivial(fmt.Sprintf("%s/%d", jsonStr(c), emask))
			}
			for flags := 0; flags < 8; flags++ {
				f, m, l := flags&1 != 0, flags&2 != 0, flags&4 != 0
				if c.Kind == "replace" && flags != 0 && flags != 7 && flags != 1 {
					continue
				}
				mkList := func() (segment.PostingsList, error) { return dict.PostingsList([]byte("x"), ebm, nil) }
				pl, err := mkList()
				if err != nil {
					fail("postingslist-error", err.Error())
					return
				}
				if msg := checkCreation(pl, pl.Iterator(f, m, l, nil), hits); msg != "" {
					fail("creation", fmt.Sprintf("except %v flags %d: %s", docsOf(hitsOfMask(emask, c.N)), flags, msg))
					return
				}
				if c.Kind == "seq" {
					ex := &seqExplorer{hits: hits, n: uint64(c.N), f: f, m: m, l: l,
						mk: func() (segment.PostingsIterator, error) {
							pl, err := mkList()
							if err != nil {
								return nil, err
							}
							return pl.Iterator(f, m, l, nil), nil
						}}
					ex.explore(nil, 0)
					a.Eval(int(ex.paths))
					a.Count("calls", int(ex.calls))
					if ex.fail != "" {
						fail("iteration", fmt.Sprintf("except %v flags(freq,norm,locs)=%v,%v,%v: %s", docsOf(hitsOfMask(emask, c.N)), f, m, l, ex.fail))
						return
					}
					continue
				}
				// replace: every subset S of the non-excluded hits replaces the actual bitmap
				if o, ok := pl.Iterator(f, m, l, nil).(segment.OptimizablePostingsIterator); ok {
					if _, is1 := o.DocNum1Hit(); is1 || o.ActualBitmap() == nil {
						continue // single-hit / empty iterators are not optimised through ReplaceActual
					}
				}
				for smask := 0; smask < 1<<uint(len(hits)); smask++ {
					var sub []ref.Hit
					sbm := roaring.New()
					for i, h := range hits {
						if smask&(1<<uint(i)) != 0 {
							sub = append(sub, h)
							sbm.Add(uint32(h.Doc))
						}
					}
					ex := &seqExplorer{hits: sub, n: uint64(c.N), f: f, m: m, l: l,
						mk: func() (segment.PostingsIterator, error) {
							pl, err := mkList()
							if err != nil {
								return nil, err
							}
							it := pl.Iterator(f, m, l, nil)
							it.(segment.OptimizablePostingsIterator).ReplaceActual(sbm.Clone())
							return it, nil
						}}
					ex.explore(nil, 0)
					a.Eval(int(ex.paths))
					a.Count("calls", int(ex.calls))
					if ex.fail != "" {
						fail("replace-actual", fmt.Sprintf("except %v, actual replaced by %v, flags %d: %s", docsOf(hitsOfMask(emask, c.N)), docsOf(sub), flags, ex.fail))
						return
					}
				}
			}
		}
		a.Outcome(fmt.Sprintf("ok/%s/hits=%d", c.Kind, min(len(exp.Postings["a"]["x"]), 3)))
	case "large":
		runC07Large(c, seg, exp, a, fail)
	}
}

func hitsOfMask(mask, n int) []ref.Hit {
	var rv []ref.Hit
	for d := 0; d < n; d++ {
		if mask&(1<<uint(d)) != 0 {
			rv = append(rv, ref.Hit{Doc: uint64(d)})
		}
	}
	return rv
}

// runC07Large: deterministic larger instances crossing the 1024 chunk rules: full
// Next iteration, and from a fresh iterator Advance to every position around every
// chunk boundary followed by two Next calls; with no exclusion and every third doc excluded.
func runC07Large(c PostCase, seg segment.Segment, exp *ref.Content, a *run.Acc, fail func(kind, msg string)) {
	dict, _ := seg.Dictionary("a")
	for _, exEvery := range []int{0, 3} {
		var ebm *roaring.Bitmap
		eset := map[uint32]bool{}
		if exEvery > 0 {
			ebm = roaring.New()
			for d := 0; d < c.N; d += exEvery {
				ebm.Add(uint32(d))
				eset[uint32(d)] = true
			}
		}
		for _, term := range []string{"x", "y"} {
			hits := hitsOf(exp, "a", term, eset)
			a.NonTrivial(fmt.Sprintf("%s/%d/%s", jsonStr(c), exEvery, term))
			for _, flags := range []int{0, 1, 7} {
				f, m, l := flags&1 != 0, flags&2 != 0, flags&4 != 0
				mk := func() (segment.PostingsIterator, error) {
					pl, err := dict.PostingsList([]byte(term), ebm, nil)
					if err != nil {
						return nil, err
					}
					return pl.Iterator(f, m, l, nil), nil
				}
				ex := &seqExplorer{hits: hits, n: uint64(c.N), f: f, m: m, l: l, mk: mk}
				// full Next iteration
				full := make([]call, len(hits)+2)
				ex.runPath(full)
				// Advance targets around chunk boundaries
				targets := map[uint64]bool{0: true, uint64(c.N): true, uint64(c.N - 1): true}
				for _, cs := range []int{512, 1000, 1024, c.N / 2, c.N / 3} {
					if cs <= 0 {
						continue
					}
					for t := cs; t <= c.N; t += cs {
						for _, dt := range []int{-1, 0, 1} {
							if t+dt >= 0 && t+dt <= c.N {
								targets[uint64(t+dt)] = true
							}
						}
					}
				}
				var ts []uint64
				for t := range targets {
					ts = append(ts, t)
				}
				sort.Slice(ts, func(i, j int) bool { return ts[i] < ts[j] })
				for _, t := range ts {
					if ex.fail != "" {
						break
					}
					ex.runPath([]call{{Adv: true, T: t}, {}, {}})
					// and reached by a Next first, then the Advance
					if t > 0 {
						ex.runPath([]call{{}, {Adv: true, T: t}, {}})
					}
					a.Eval(2)
				}
				a.Count("calls", int(ex.calls))
				if ex.fail != "" {
					fail("iteration-large", fmt.Sprintf("term %q, every %d-th doc excluded, flags %d: %s", term, exEvery, flags, ex.fail))
					return
				}
			}
		}
	}
	a.Outcome("ok/large")
}

func genC07(tier string, emit func(interface{})) {
	maxN := 5
	if tier == "thorough" {
		maxN = 7
	}
	for n := 1; n <= maxN; n++ {
		chunks := []uint32{1, 2, 3, uint32(n)}
		for _, chunk := range chunks {
			if int(chunk) > n {
				continue
			}
			for _, pattern := range []string{"mixed", "plain", "zero"} {
				for _, sk := range []string{"mem", "mmap", "merged"} {
					if n == 7 && sk == "mmap" && pattern == "plain" {
						continue
					}
					if pattern == "zero" && (n > 4 || sk == "mmap") && tier == "quick" {
						continue // the frequency-0 pattern: N <= 4, in memory and merged, in quick
					}
					if pattern == "zero" && n > 5 {
						continue
					}
					for p := 1; p < 1<<uint(n); p++ {
						emit(PostCase{Kind: "seq", N: n, P: p, Chunk: chunk, Pattern: pattern, Seg: sk})
						if n <= 4 || (tier == "thorough" && n <= 5) {
							emit(PostCase{Kind: "replace", N: n, P: p, Chunk: chunk, Pattern: pattern, Seg: sk})
						}
					}
				}
			}
		}
	}
	for _, n := range []int{1025, 2049} {
		for _, card := range []int{1, 1024, 1025, n} {
			if card > n {
				continue
			}
			for _, mode := range []uint32{1024, 1025, 1026} {
				for _, sk := range []string{"mem", "merged"} {
					emit(PostCase{Kind: "large", N: n, Card: card, Chunk: mode, Pattern: "mixed", Seg: sk})
				}
			}
		}
	}
	genReuse(tier, emit)
	genDonate(tier, emit)
}

func init() {
	run.Register(&run.Def{
		ID:          "C07",
		Level:       "exploration",
		Rule:        "bounded-exhaustive: every non-empty postings set P and EVERY exclusion set E over N documents (N<=5 quick, N<=7 thorough) x chunk sizes {1,2,3,N} x detail pattern {mixed: freq 1..3 with locations on even docs; plain: freq 1 without locations (single-hit encoding after a merge when |P|=1); zero: frequency 0 WITH one or two locations on odd documents and frequency 2 with locations on even ones (N<=4 quick / 5 thorough)} x segment {in-memory, mmap, merged} x all 8 detail-flag combinations x EVERY maximal call sequence of Next / Advance(t) for all t in (last returned, N] and for t = 2^32 + last + 1 (a target beyond 32 bits) (explored as a tree; a successor is the replayed prefix + one call; after nil one more call of each kind must return nil); Count, ActualBitmap and DocNum1Hit right after creation; ReplaceActual(S) for every S subset of P\\E followed by every call sequence (N<=4 quick, N<=5 thorough); preallocation reuse: every ordered pair and triple over a family of 20 lists (2 segments x 5 (field,term) incl. single-hit, absent term, absent field x 2 exclusions) passing the previous PostingsList and PostingsIterator objects back in after 0/1/all calls, followed by every call sequence on the last one; iterator-only hand-over: for every ordered pair of the family the ITERATOR of list A (after 0/1/all calls, optionally after ReplaceActual) is passed as preallocation to a fresh list B while A stays in use - B iterates correctly, A still reports its own Count and hits, the bitmap given to ReplaceActual is not written to; plus deterministic large instances N in {1025,2049} x cardinality {1,1024,1025,N} x chunk modes {1024,1025,1026} iterated fully and with Advance around every chunk boundary. Only requested details are compared. Non-trivial = >= 2 non-excluded hits, or an exclusion on a list with >= 2 hits.",
		Assumptions: append([]string{"Advance targets are strictly beyond the last returned document (as the property states); ReplaceActual is applied before iteration starts and only to iterators that report an actual bitmap"}, batchAssumptions...),
		Bounds:      map[string]string{"quick": "N<=5, ReplaceActual N<=4, reuse pairs+triples, large instances", "thorough": "N<=7, ReplaceActual N<=5, reuse pairs+triples with all flag pairs, large instances"},
		New:         func() interface{} { return &PostCase{} },
		Gen:         genC07,
		Run: func(ci interface{}, a *run.Acc) {
			c := ci.(*PostCase)
			if c.Kind == "reuse" {
				runReuse(*c, a)
				return
			}
			if c.Kind == "donate" {
				runDonate(*c, a)
				return
			}
			runC07(ci, a)
		},
	})
}
