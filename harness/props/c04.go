package props

import (
	"bytes"
	"encoding/binary"
	"fmt"
	"hash/crc32"
	"io"
	"os"

	segment "github.com/blevesearch/scorch_segment_api/v2"

	"verif/dump"
	"verif/enum"
	"verif/ref"
	"verif/run"
	"verif/zx"
)

// Footer is the fixed-position v16 footer, decoded independently of zapx.
type Footer struct {
	NumDocs, StoredIndex, FieldsIndex, SectionsIndex, DocValue uint64
	ChunkMode, Version, CRC                                    uint32
}

const footerSize = 8*5 + 4*3

func ParseFooter(b []byte) (Footer, error) {
	var f Footer
	if len(b) < footerSize {
		return f, fmt.Errorf("file of %d bytes is shorter than a footer", len(b))
	}
	t := b[len(b)-footerSize:]
	f.NumDocs = binary.BigEndian.Uint64(t[0:])
	f.StoredIndex = binary.BigEndian.Uint64(t[8:])
	f.FieldsIndex = binary.BigEndian.Uint64(t[16:])
	f.SectionsIndex = binary.BigEndian.Uint64(t[24:])
	f.DocValue = binary.BigEndian.Uint64(t[32:])
	f.ChunkMode = binary.BigEndian.Uint32(t[40:])
	f.Version = binary.BigEndian.Uint32(t[44:])
	f.CRC = binary.BigEndian.Uint32(t[48:])
	return f, nil
}

// CheckFile checks footer + CRC of a complete segment file.
func CheckFile(b []byte, numDocs int, chunkMode uint32) string {
	f, err := ParseFooter(b)
	if err != nil {
		return err.Error()
	}
	if f.Version != 16 {
		return fmt.Sprintf("footer version %d, want 16", f.Version)
	}
	if f.NumDocs != uint64(numDocs) {
		return fmt.Sprintf("footer document count %d, want %d", f.NumDocs, numDocs)
	}
	if f.ChunkMode != chunkMode {
		return fmt.Sprintf("footer chunk mode %d, want %d", f.ChunkMode, chunkMode)
	}
	if c := crc32.ChecksumIEEE(b[:len(b)-4]); c != f.CRC {
		return fmt.Sprintf("footer CRC %08x does not match CRC-32 of the preceding bytes %08x", f.CRC, c)
	}
	if f.StoredIndex > uint64(len(b)) || f.SectionsIndex > uint64(len(b)) {
		return fmt.Sprintf("footer offsets beyond the file: stored index %d, sections index %d, length %d", f.StoredIndex, f.SectionsIndex, len(b))
	}
	return ""
}

type persistedInfo interface {
	CRC() uint32
	Version() uint32
	ChunkMode() uint32
	NumDocs() uint64
}

// checkPersisted performs the whole C04 oracle for one in-memory segment.
func checkPersisted(seg segment.Segment, exp *ref.Content, mode uint32, a *run.Acc, extra func(name string, s segment.Segment) string) (sig, msg string) {
	us, ok := seg.(segment.UnpersistedSegment)
	if !ok {
		return "type", fmt.Sprintf("%T is not an UnpersistedSegment", seg)
	}
	path := zx.TempPath("c04")
	defer zx.Remove(path)
	if err := us.Persist(path); err != nil {
		return "persist-error", "Persist: " + err.Error()
	}
	fileBytes, err := os.ReadFile(path)
	if err != nil {
		return "persist-nofile", "Persist reported success but the file cannot be read: " + err.Error()
	}
	var buf bytes.Buffer
	wt, ok := seg.(io.WriterTo)
	if !ok {
		return "type", fmt.Sprintf("%T is not an io.WriterTo", seg)
	}
	n, err := wt.WriteTo(&buf)
	if err != nil {
		return "writeto-error", "WriteTo: " + err.Error()
	}
	if int(n) != buf.Len() {
		return "writeto-count", fmt.Sprintf("WriteTo reported %d bytes but wrote %d", n, buf.Len())
	}
	if !bytes.Equal(buf.Bytes(), fileBytes) {
		return "bytes-differ", fmt.Sprintf("Persist wrote %d bytes, WriteTo %d bytes, contents differ", len(fileBytes), buf.Len())
	}
	if m := CheckFile(fileBytes, exp.Count, mode); m != "" {
		return "footer", m
	}
	// the same onto a path that already holds ANOTHER file of exactly the final size
	// (a retried or re-used destination): the bytes must be replaced all the same
	if len(fileBytes) > 0 {
		path2 := zx.TempPath("c04s")
		defer zx.Remove(path2)
		stale := append([]byte{}, fileBytes...)
		stale[0] ^= 0xff
		stale[len(stale)/2] ^= 0x55
		if err := os.WriteFile(path2, stale, 0600); err != nil {
			a.Note("HARNESS: cannot prepare a destination file: " + err.Error())
		} else if err := us.Persist(path2); err != nil {
			return "persist-error", "Persist onto an existing file of the final size: " + err.Error()
		} else if again, err := os.ReadFile(path2); err != nil {
			return "persist-nofile", "Persist onto an existing file reported success but the file cannot be read: " + err.Error()
		} else if !bytes.Equal(again, fileBytes) {
			return "bytes-differ", fmt.Sprintf("Persist onto a path holding another file of the same size (%d bytes) left bytes that differ from WriteTo", len(stale))
		}
	}
	opened, err := zx.Plugin.Open(path)
	if err != nil {
		return "open-error", "Open: " + err.Error()
	}
	defer opened.Close()
	pi, ok := opened.(persistedInfo)
	if !ok {
		return "type", fmt.Sprintf("%T lacks CRC/Version/ChunkMode/NumDocs", opened)
	}
	ft, _ := ParseFooter(fileBytes)
	if pi.CRC() != ft.CRC || pi.Version() != 16 || pi.ChunkMode() != mode || pi.NumDocs() != uint64(exp.Count) {
		return "open-config", fmt.Sprintf("opened segment reports CRC %08x version %d chunk mode %d docs %d; file has %08x/16/%d/%d",
			pi.CRC(), pi.Version(), pi.ChunkMode(), pi.NumDocs(), ft.CRC, mode, exp.Count)
	}
	u := dump.UniverseOf(exp)
	gm, err := dump.Segment(seg, u)
	if err != nil {
		return "read-error", "in-memory: " + err.Error()
	}
	gp, err := dump.Segment(opened, u)
	if err != nil {
		return "read-error", "re-opened: " + err.Error()
	}
	a.Eval(2)
	if d := ref.Diff(gm.Render(ref.All), gp.Render(ref.All)); d != "" {
		return "reopen-differs", "re-opened segment differs from the in-memory one (expected = in-memory):\n" + d
	}
	if d := zx.Compare(exp, gp, ref.All); d != "" {
		return "content-mismatch", "re-opened segment differs from the reference:\n" + d
	}
	if extra != nil {
		if m := extra("in-memory", seg); m != "" {
			return "extra", m
		}
		if m := extra("re-opened", opened); m != "" {
			return "extra", m
		}
	}
	return "", ""
}

func init() {
	run.Register(&run.Def{
		ID:          "C04",
		Level:       "exploration",
		Rule:        "bounded-exhaustive: a cross-section of every batch family of C01/C02/C03/C12 (and the vector family under the vectors tag), plus a 'big' family whose stored data (100 B .. 2.2 MB incompressible) pushes all later offsets across the 2^14 and 2^21 varint width boundaries, x their chunk modes, under both build tags: Persist(path) - onto a fresh path and onto a path holding another file of exactly the final size - and WriteTo(buffer) must emit identical bytes; the footer is parsed by an independent decoder (document count, chunk mode, version 16, CRC-32 over all preceding bytes); Open must report the same CRC/version/chunk mode/count; the complete dump (terms, postings, stored, doc values, thesauri; vector searches under the vectors tag) of the opened segment must equal that of the in-memory one and the reference. Non-trivial = every batch with >= 1 document.",
		Assumptions: batchAssumptions,
		Bounds:      map[string]string{"quick": "cells N<=1 all + special-shape cells N<=3, columns N<=5, boundary, stored, dv (2 chunk sizes), synonym families; vector family N<=3 under vectors tag", "thorough": "all families at their thorough bounds"},
		Flavours:    plainAndVec,
		New:         func() interface{} { return &enum.AnyBatch{} },
		Gen: func(tier string, emit func(interface{})) {
			enum.AllFamilies(tier, run.Flavour == "vec", func(c enum.AnyBatch) { emit(c) })
		},
		Run: func(ci interface{}, a *run.Acc) {
			c := *ci.(*enum.AnyBatch)
			b := c.Batch()
			exp := ref.FromBatch(b)
			prepareVec(c)
			seg, _, err := zx.Build(b, c.Mode())
			if err != nil {
				a.Violation("build-error", err.Error()+"\n"+jsonStr(c))
				return
			}
			defer seg.Close()
			if len(b.Docs) > 0 {
				a.NonTrivial(c.Key())
			}
			if sig, msg := checkPersisted(seg, exp, c.Mode(), a, vecExtra(exp)); sig != "" {
				a.Violation(sig, msg+"\n"+jsonStr(c))
				return
			}
			a.Outcome("ok")
		},
	})
}
