//go:build vectors

package props

import (
	"fmt"
	"math/rand"
	"os"
	"sort"

	"github.com/RoaringBitmap/roaring/v2"
	faiss "github.com/blevesearch/go-faiss"
	segment "github.com/blevesearch/scorch_segment_api/v2"

	"verif/enum"
	"verif/ref"
	"verif/run"
	"verif/spec"
	"verif/zx"
)

// EngineFaultCase: one build / merge scenario; the run enumerates every engine call.
type EngineFaultCase struct {
	Scenario int `json:"scenario"`
}

type engScenario struct {
	name    string
	batches []spec.Batch
	drops   [][]int
	build   bool
}

func engScenarios() []engScenario {
	vm := enum.VecMenu()
	two := enum.VecCase{Docs: []int{2, 6}, Metric: "l2_norm", Two: true}.Batch()
	return []engScenario{
		{"build (flat index, two vector fields)", []spec.Batch{two}, nil, true},
		{"build (1200 vectors: clustered index, train path)", []spec.Batch{latticeBatch(1200, "l2_norm")}, nil, true},
		{"merge of two segments", []spec.Batch{vm[0], vm[1]}, [][]int{nil, nil}, false},
		{"merge with deletions", []spec.Batch{vm[1], vm[0], vm[2]}, [][]int{{0}, {1}, nil}, false},
		{"merge into a clustered index (2 x 600 vectors)", []spec.Batch{latticeBatch(600, "dot_product"), latticeBatch(600, "dot_product")}, [][]int{nil, {3, 4}}, false},
		{"merge of four segments, one without the field, one with all its vectors deleted", []spec.Batch{vm[0], vm[3], vm[2], vm[1]}, [][]int{nil, nil, {0}, {1}}, false},
		{"merge of two segments with two vector fields each", []spec.Batch{two, two}, [][]int{nil, {1}}, false},
		{"build (memory-efficient optimisation, 1100 vectors: IVF,SQ4)", []spec.Batch{optBatch(latticeBatch(1100, "l2_norm"), "memory-efficient")}, nil, true},
		{"build (latency optimisation, three documents)", []spec.Batch{optBatch(enum.VecCase{Docs: []int{1, 7, 3}, Metric: "cosine"}.Batch(), "latency")}, nil, true},
	}
}

// numQuickEngScenarios / allEngScenarios: the 9 hand-picked scenarios are followed by
// generated ones. Quick: builds and merges on the exact/clustered class boundary (999 /
// 1000 vectors), every batch of C14's build alphabet with 1 or 2 documents as a build,
// every ordered pair of its 1-document batches as a merge. Thorough adds every ordered
// pair of its 2-document batches, nothing dropped and with one document of each dropped.
var engScenarioCache []engScenario
var engScenarioQuick int

func allEngScenarios() ([]engScenario, int) {
	if engScenarioCache != nil {
		return engScenarioCache, engScenarioQuick
	}
	rv := engScenarios()
	rv = append(rv,
		engScenario{"build of exactly 1000 vectors (first clustered size)", []spec.Batch{latticeBatch(989, "l2_norm")}, nil, true},
		engScenario{"build of 999 vectors (last exact size)", []spec.Batch{latticeBatch(988, "l2_norm")}, nil, true},
		engScenario{"merge of 500 + 500 vectors into exactly 1000", []spec.Batch{enum.VecLattice(500, 0, "a", "l2_norm"), enum.VecLattice(500, 20, "b", "l2_norm")}, [][]int{nil, nil}, false},
		engScenario{"merge of 1001 vectors with two deletions (clustered input, exact output)", []spec.Batch{enum.VecLattice(1001, 40, "c", "l2_norm")}, [][]int{{0, 500}}, false},
	)
	va := enum.Menu("vecA")
	for i, b := range va {
		rv = append(rv, engScenario{fmt.Sprintf("build of vector alphabet item %d", i), []spec.Batch{b}, nil, true})
	}
	for i := 0; i < 9; i++ {
		for j := 0; j < 9; j++ {
			rv = append(rv, engScenario{fmt.Sprintf("merge of vector alphabet items %d,%d", i, j), []spec.Batch{va[i], va[j]}, [][]int{nil, nil}, false})
		}
	}
	engScenarioQuick = len(rv)
	for i := 9; i < len(va); i++ {
		for j := 9; j < len(va); j++ {
			rv = append(rv, engScenario{fmt.Sprintf("merge of vector alphabet items %d,%d", i, j), []spec.Batch{va[i], va[j]}, [][]int{nil, {}}, false})
			rv = append(rv, engScenario{fmt.Sprintf("merge of vector alphabet items %d,%d with deletions", i, j), []spec.Batch{va[i], va[j]}, [][]int{{0}, {1}}, false})
		}
	}
	engScenarioCache = rv
	return rv, engScenarioQuick
}

func optBatch(b spec.Batch, opt string) spec.Batch {
	for d := range b.Docs {
		for f := range b.Docs[d].Fields {
			if b.Docs[d].Fields[f].IsVector() {
				b.Docs[d].Fields[f].Opt = opt
			}
		}
	}
	return b
}

// allVectorsRetrievable checks that every vector of the reference can be found
// (exact search with k = number of vectors when the class is exact; the count
// statistic always).
func allVectorsRetrievable(seg segment.Segment, exp *ref.Content) string {
	if m := checkStats(seg, exp); m != "" {
		return m
	}
	for field, vf := range exp.Vecs {
		if len(vf.Vecs) >= 1000 {
			// clustered class: unfiltered answers are approximate; ask for every document alone
			if m := everyVectorPresent(seg, exp, field); m != "" {
				return fmt.Sprintf("field %q: %s", field, m)
			}
			continue
		}
		q := vecQuery{Field: field, Q: make([]float32, vf.Dims), K: int64(len(vf.Vecs))}
		got, err := search(seg, q)
		if err != nil {
			return fmt.Sprintf("search on field %q: %v", field, err)
		}
		if m := checkResult(exp, q, got, true); m != "" {
			return fmt.Sprintf("field %q: %s", field, m)
		}
	}
	return ""
}

func runC19(ci interface{}, a *run.Acc) {
	c := *ci.(*EngineFaultCase)
	scs, _ := allEngScenarios()
	sc := scs[c.Scenario]
	fail := func(kind, msg string) {
		a.Violation(kind, fmt.Sprintf("scenario %q: %s", sc.name, msg))
	}
	// inputs of a merge are built fault-free first
	rand.Seed(4242)
	faiss.Ctl.Reset()
	var inputs []segment.Segment
	var refs []*ref.Content
	if !sc.build {
		for _, b := range sc.batches {
			s, _, err := zx.Build(b, 1026)
			if err != nil {
				fail("setup-error", err.Error())
				return
			}
			defer s.Close()
			inputs = append(inputs, s)
			refs = append(refs, ref.FromBatch(b))
		}
	}
	var exp *ref.Content
	var bms []*roaring.Bitmap
	if sc.build {
		exp = ref.FromBatch(sc.batches[0])
	} else {
		drops := make([][]bool, len(refs))
		for i, d := range sc.drops {
			if d == nil {
				bms = append(bms, nil)
				continue
			}
			bm := roaring.New()
			drops[i] = make([]bool, refs[i].Count)
			for _, x := range d {
				bm.Add(uint32(x))
				drops[i][x] = true
			}
			bms = append(bms, bm)
		}
		exp, _ = ref.FromMerge(refs, drops)
	}
	// op runs the operation once under the current fault plan
	op := func() (seg segment.Segment, path string, err error) {
		defer func() {
			if r := recover(); r != nil {
				err = fmt.Errorf("panic: %v", r)
			}
		}()
		if sc.build {
			s, _, err := zx.Build(sc.batches[0], 1026)
			return s, "", err
		}
		path = zx.TempPath("c19")
		_, _, err = zx.Plugin.Merge(inputs, bms, path, nil, nil)
		if err != nil {
			return nil, path, err
		}
		o, err := zx.Plugin.Open(path)
		return o, path, err
	}
	base := engineLive()
	faiss.Ctl.Reset()
	seg, path, err := op()
	if err != nil {
		fail("nofault", "fault-free run failed: "+err.Error())
		return
	}
	counts := faiss.Ctl.Counts()
	if m := allVectorsRetrievable(seg, exp); m != "" {
		fail("nofault", "fault-free run: "+m)
		seg.Close()
		return
	}
	seg.Close()
	zx.Remove(path)
	if live := engineLive(); live != base {
		fail("engine-leak", fmt.Sprintf("fault-free run: %d native objects alive, %d before the call", live, base))
		return
	}
	if m := engineMisuse(); m != "" {
		fail("engine-misuse", "fault-free run: "+m)
		return
	}
	var ops []string
	for o := range counts {
		if o != "Close" && o != "Search" && o != "SearchWithoutIDs" && o != "SearchWithIDs" {
			ops = append(ops, o)
		}
	}
	sort.Strings(ops)
	for _, o := range ops {
		for n := 1; n <= counts[o]; n++ {
			faiss.Ctl.Reset()
			faiss.Ctl.FailAt(o, n)
			seg, path, err := op()
			misuse := faiss.Ctl.Errors() // before Reset, which clears them
			faiss.Ctl.Reset()
			a.Eval(1)
			a.NonTrivial(fmt.Sprintf("%d/%s/%d", c.Scenario, o, n))
			desc := fmt.Sprintf("engine call %s #%d made to fail", o, n)
			if err == nil {
				m := allVectorsRetrievable(seg, exp)
				seg.Close()
				zx.Remove(path)
				if m != "" {
					fail("silently-missing:"+o, fmt.Sprintf("%s, but the operation reported success and the result lacks vectors: %s", desc, m))
					a.Outcome("silently-missing")
					return
				}
				a.Outcome("success-complete")
			} else {
				if path != "" {
					if _, statErr := os.Stat(path); statErr == nil {
						zx.Remove(path)
						fail("file-left:"+o, desc+": the merge returned an error but left a file at the path")
						return
					}
				}
				a.Outcome("error-reported")
			}
			if live := engineLive(); live != base {
				fail("engine-leak:"+o, fmt.Sprintf("%s: %d native engine objects alive afterwards, %d before the call", desc, live, base))
				faiss.Ctl.ForgetLive()
				return
			}
			misuse = append(misuse, faiss.Ctl.Errors()...)
			faiss.Ctl.TakeMisuse()
			if len(misuse) > 0 {
				fail("engine-misuse:"+o, fmt.Sprintf("%s: %v", desc, misuse))
				return
			}
		}
	}
}

func init() {
	run.Register(&run.Def{
		ID:          "C19",
		Level:       "fault_enumeration",
		Rule:        "deviation enumeration of vector-engine failures (vectors tag, stand-in engine with a fault plan): for each scenario - 9 hand-picked ones (build with a flat index over two vector fields; build of 1200 vectors = clustered index with the train path; merge of two segments; merge of three segments with deletions; merge of 2 x 600 vectors into a clustered index; merge of four segments incl. one without the field and one fully deleted; merge of two-field segments; builds with the memory-efficient and latency optimisations), builds and merges of exactly 999 / 1000 vectors, and generated ones (see bounds): every small batch of the vector build alphabet as a build, ordered pairs of them as merges - the fault-free run yields the engine call log; then one run per (operation kind, n) for EVERY n that occurred, for IndexFactory, SetDirectMap, Train, AddWithIDs, WriteIndexIntoBuffer, ReadIndexFromBuffer, ReconstructBatch. Oracle: New / Merge returns an error, or else every vector of the reference is retrievable (count statistic; exact search with k = number of vectors for flat indexes) - otherwise 'silently missing'; a failed merge leaves no file; the engine's live-object count returns to its pre-call value; no double free / use after free. Non-trivial = one (scenario, operation, n).",
		Assumptions: []string{"the vector engine is the pure-Go stand-in (DESIGN 3.4); its fault plan fails exactly the n-th call of an operation"},
		Bounds:      map[string]string{"quick": "all engine calls of 184 scenarios: the 9 hand-picked ones, 4 on the 999/1000-vector class boundary, every 1- and 2-document batch of the vector build alphabet as a build (90), every ordered pair of its 1-document batches as a merge (81)", "thorough": "quick + every ordered pair of the 2-document batches as a merge, without and with deletions (13122 more scenarios)"},
		New:         func() interface{} { return &EngineFaultCase{} },
		Gen: func(tier string, emit func(interface{})) {
			scs, nq := allEngScenarios()
			for i := range scs {
				if tier == "quick" && i >= nq {
					break
				}
				emit(EngineFaultCase{Scenario: i})
			}
		},
		Run: runC19,
	})
}
