package props

import (
	"fmt"
	"regexp"
	"sort"
	"strings"
	"unicode/utf8"

	"github.com/RoaringBitmap/roaring/v2"
	segment "github.com/blevesearch/scorch_segment_api/v2"
	"github.com/blevesearch/vellum"
	"github.com/blevesearch/vellum/levenshtein"
	vregexp "github.com/blevesearch/vellum/regexp"

	"verif/ref"
	"verif/run"
	"verif/spec"
	"verif/zx"
)

var dictUniverse = []string{"", "a", "ab", "b", "ba", "é"}

// thorough tier: two more terms (a longer one sharing a prefix, one above all others)
var dictUniverseThorough = []string{"", "a", "ab", "b", "ba", "é", "abc", "zz~"}

// DictCase: one term set (subset of the universe) in one postings-size pattern
// and one segment provenance.
type DictCase struct {
	Wide    bool   `json:"wide,omitempty"` // thorough universe of 8 terms
	Set     int    `json:"set"`            // subset mask over dictUniverse
	Pattern int    `json:"pattern"`        // 0: every term in exactly one doc; 1: alternating 1 / 2-3 docs; 2: every term in 2 docs
	Prov    string `json:"prov"`           // built | opened | merged1 | merged2 | updated | updatedR
}

func universeOf(c DictCase) []string {
	if c.Wide {
		return dictUniverseThorough
	}
	return dictUniverse
}

func dictBatch(c DictCase) spec.Batch {
	const n = 4
	docs := make([]spec.Doc, n)
	for d := range docs {
		docs[d] = spec.Doc{ID: fmt.Sprintf("d%d", d)}
	}
	toks := make([][]spec.Tok, n)
	k := 0
	for i, t := range universeOf(c) {
		if c.Set&(1<<uint(i)) == 0 {
			continue
		}
		var in []int
		switch c.Pattern {
		case 0:
			in = []int{k % n}
		case 1:
			if k%2 == 0 {
				in = []int{k % n}
			} else if k%4 == 1 {
				in = []int{0, 2}
			} else {
				in = []int{1, 2, 3}
			}
		case 2:
			in = []int{k % n, (k + 1) % n}
		case 3: // every term in exactly one doc, indexed without frequencies (freq 0: no norm stored)
			in = []int{k % n}
		}
		for _, d := range in {
			f := 1
			if c.Pattern == 3 {
				f = 0
			}
			toks[d] = append(toks[d], spec.Tok{Term: t, Freq: f})
		}
		k++
	}
	for d := range docs {
		docs[d].Fields = []spec.Field{{Name: "f", Len: 1 + len(toks[d]), Toks: toks[d]}}
		if d == 3 {
			docs[d].Fields = append(docs[d].Fields, spec.Field{Name: "s1", Kind: spec.Synonym, Syn: []spec.SynEntry{{Term: "a", Syns: []string{"x"}}}})
		}
	}
	return spec.Batch{Docs: docs}
}

// ---- automata written for the harness (exact, prefix, never) ----

type exactAut struct{ s []byte }

func (a exactAut) Start() int               { return 0 }
func (a exactAut) IsMatch(s int) bool       { return s == len(a.s) }
func (a exactAut) CanMatch(s int) bool      { return s >= 0 }
func (a exactAut) WillAlwaysMatch(int) bool { return false }
func (a exactAut) Accept(s int, b byte) int {
	if s >= 0 && s < len(a.s) && a.s[s] == b {
		return s + 1
	}
	return -1
}

type prefixAut struct{ p []byte }

func (a prefixAut) Start() int                 { return 0 }
func (a prefixAut) IsMatch(s int) bool         { return s >= len(a.p) }
func (a prefixAut) CanMatch(s int) bool        { return s >= 0 }
func (a prefixAut) WillAlwaysMatch(s int) bool { return s >= len(a.p) }
func (a prefixAut) Accept(s int, b byte) int {
	if s < 0 {
		return -1
	}
	if s >= len(a.p) {
		return s
	}
	if a.p[s] == b {
		return s + 1
	}
	return -1
}

type neverAut struct{}

func (neverAut) Start() int               { return 0 }
func (neverAut) IsMatch(int) bool         { return false }
func (neverAut) CanMatch(int) bool        { return false }
func (neverAut) WillAlwaysMatch(int) bool { return false }
func (neverAut) Accept(int, byte) int     { return 0 }

func editDistance(a, b string) int {
	ra, rb := []rune(a), []rune(b)
	prev := make([]int, len(rb)+1)
	for j := range prev {
		prev[j] = j
	}
	for i := 1; i <= len(ra); i++ {
		cur := make([]int, len(rb)+1)
		cur[0] = i
		for j := 1; j <= len(rb); j++ {
			cost := 1
			if ra[i-1] == rb[j-1] {
				cost = 0
			}
			cur[j] = min(prev[j]+1, cur[j-1]+1, prev[j-1]+cost)
		}
		prev = cur
	}
	return prev[len(rb)]
}

type autSpec struct {
	name   string
	aut    vellum.Automaton
	accept func(term string) bool
}

func automata() ([]autSpec, error) {
	rv := []autSpec{{"nil(match-all)", nil, func(string) bool { return true }}}
	for _, u := range append(append([]string{}, dictUniverse...), "zz") {
		u := u
		rv = append(rv, autSpec{fmt.Sprintf("exact(%q)", u), exactAut{[]byte(u)}, func(t string) bool { return t == u }})
	}
	for _, p := range []string{"", "a", "b", "é", "\xc3"} {
		p := p
		rv = append(rv, autSpec{fmt.Sprintf("prefix(%q)", p), prefixAut{[]byte(p)}, func(t string) bool { return strings.HasPrefix(t, p) }})
	}
	for _, expr := range []string{"a.*", "[ab]+", ".", "(ab|ba)", "", "b?a", ".*é.*"} {
		r, err := vregexp.New(expr)
		if err != nil {
			return nil, fmt.Errorf("vellum regexp %q: %v", expr, err)
		}
		gr := regexp.MustCompile(`^(?:` + expr + `)$`)
		rv = append(rv, autSpec{fmt.Sprintf("regexp(%q)", expr), r, func(t string) bool { return utf8.ValidString(t) && gr.MatchString(t) }})
	}
	lb, err := levenshtein.NewLevenshteinAutomatonBuilder(1, false)
	if err != nil {
		return nil, err
	}
	for _, q := range []string{"a", "ab", "bb", "é"} {
		q := q
		dfa, err := lb.BuildDfa(q, 1)
		if err != nil {
			return nil, err
		}
		rv = append(rv, autSpec{fmt.Sprintf("levenshtein1(%q)", q), dfa, func(t string) bool { return editDistance(q, t) <= 1 }})
	}
	rv = append(rv, autSpec{"never", neverAut{}, func(string) bool { return false }})
	return rv, nil
}

// range bounds: nil = absent
var rangeBounds = []*string{nil, sp(""), sp("a"), sp("a0"), sp("ab"), sp("b"), sp("ba"), sp("c"), sp("é"), sp("\xff")}

func sp(s string) *string { return &s }

func bstr(p *string) string {
	if p == nil {
		return "nil"
	}
	return fmt.Sprintf("%q", *p)
}

func bbytes(p *string) []byte {
	if p == nil {
		return nil
	}
	return []byte(*p)
}

type dictTarget struct {
	name string
	seg  segment.Segment
	exp  *ref.Content
}

func checkDictionary(t dictTarget, field string, auts []autSpec, a *run.Acc) string {
	dict, err := t.seg.Dictionary(field)
	if err != nil {
		return fmt.Sprintf("Dictionary(%q): %v", field, err)
	}
	var terms []string
	for term := range t.exp.Postings[field] {
		terms = append(terms, term)
	}
	sort.Strings(terms)
	if dict.Cardinality() != len(terms) {
		return fmt.Sprintf("Cardinality() = %d, want %d (%q)", dict.Cardinality(), len(terms), terms)
	}
	for _, u := range append(append([]string{}, dictUniverseThorough...), "zz") {
		has, err := dict.Contains([]byte(u))
		if err != nil {
			return fmt.Sprintf("Contains(%q): %v", u, err)
		}
		_, want := t.exp.Postings[field][u]
		if has != want {
			return fmt.Sprintf("Contains(%q) = %v, want %v", u, has, want)
		}
	}
	for _, as := range auts {
		for _, start := range rangeBounds {
			for _, end := range rangeBounds {
				// every pair of bounds is a legal request, incl. start >= end and the empty
				// (non-nil) end key, below which no key sorts: such ranges hold nothing
				var want []string
				for _, term := range terms {
					if !as.accept(term) {
						continue
					}
					if start != nil && term < *start {
						continue
					}
					if end != nil && term >= *end {
						continue
					}
					want = append(want, fmt.Sprintf("%q:%d", term, len(t.exp.Postings[field][term])))
				}
				it := dict.AutomatonIterator(as.aut, bbytes(start), bbytes(end))
				var got []string
				for {
					e, err := it.Next()
					if err != nil {
						return fmt.Sprintf("%s range [%s,%s): iteration error %v", as.name, bstr(start), bstr(end), err)
					}
					if e == nil {
						break
					}
					got = append(got, fmt.Sprintf("%q:%d", e.Term, e.Count))
					if len(got) > 20 {
						break
					}
				}
				a.Eval(1)
				if strings.Join(got, " ") != strings.Join(want, " ") {
					return fmt.Sprintf("automaton %s, range [%s,%s): entries (term:count) %v, want %v", as.name, bstr(start), bstr(end), got, want)
				}
			}
		}
	}
	// several live iterators of ONE dictionary object: every ordered pair over a sub-menu
	// of 16 (automaton, range) configurations, stepped in lock step and nested (open A,
	// one call, open B, drain B, drain A): each must return its own sequence
	type cfg struct {
		as         autSpec
		start, end *string
		want       []string
	}
	var cfgs []cfg
	for _, ai := range []int{0, 9, 14, 21} { // match-all, prefix("a"), regexp("[ab]+"), levenshtein1("ab")
		if ai >= len(auts) {
			continue
		}
		for _, r := range [][2]*string{{nil, nil}, {sp("a"), nil}, {nil, sp("b")}, {sp("a0"), sp("c")}} {
			c := cfg{as: auts[ai], start: r[0], end: r[1]}
			for _, term := range terms {
				if !c.as.accept(term) || (c.start != nil && term < *c.start) || (c.end != nil && term >= *c.end) {
					continue
				}
				c.want = append(c.want, fmt.Sprintf("%q:%d", term, len(t.exp.Postings[field][term])))
			}
			cfgs = append(cfgs, c)
		}
	}
	step := func(it segment.DictionaryIterator, got *[]string) (bool, error) {
		e, err := it.Next()
		if err != nil {
			return false, err
		}
		if e == nil {
			return false, nil
		}
		*got = append(*got, fmt.Sprintf("%q:%d", e.Term, e.Count))
		return len(*got) <= 20, nil
	}
	for _, ca := range cfgs {
		for _, cb := range cfgs {
			for _, nested := range []bool{false, true} {
				ita := dict.AutomatonIterator(ca.as.aut, bbytes(ca.start), bbytes(ca.end))
				var ga, gb []string
				var err error
				moreA, moreB := true, true
				if nested {
					moreA, err = step(ita, &ga)
				}
				itb := dict.AutomatonIterator(cb.as.aut, bbytes(cb.start), bbytes(cb.end))
				for err == nil && (moreA || moreB) {
					if nested {
						for err == nil && moreB {
							moreB, err = step(itb, &gb)
						}
						for err == nil && moreA {
							moreA, err = step(ita, &ga)
						}
						break
					}
					if moreA {
						moreA, err = step(ita, &ga)
					}
					if err == nil && moreB {
						moreB, err = step(itb, &gb)
					}
				}
				a.Eval(1)
				desc := fmt.Sprintf("two live iterators of one dictionary (nested=%v): A = %s [%s,%s), B = %s [%s,%s)", nested, ca.as.name, bstr(ca.start), bstr(ca.end), cb.as.name, bstr(cb.start), bstr(cb.end))
				if err != nil {
					return fmt.Sprintf("%s: iteration error %v", desc, err)
				}
				if strings.Join(ga, " ") != strings.Join(ca.want, " ") || strings.Join(gb, " ") != strings.Join(cb.want, " ") {
					return fmt.Sprintf("%s: A returned %v, want %v; B returned %v, want %v", desc, ga, ca.want, gb, cb.want)
				}
			}
		}
	}
	return ""
}

func init() {
	run.Register(&run.Def{
		ID:          "C08",
		Level:       "exploration",
		Rule:        "bounded-exhaustive: every subset of a 6-term universe (empty term, a, ab, b, ba, 2-byte UTF-8) as the term set of a field x 4 postings patterns (all single-document; alternating 1 / 2-3 documents; all 2 documents; all single-document with frequency 0, i.e. no norm stored) x provenance {built, re-opened, merged once, merged twice, merged once and then merged - in either order - with a segment holding a new version of document 0 while the old version is deleted} (merging turns single-document frequency-1 terms into single-hit dictionary entries, so the SEQUENCE of encodings met by the iterator's reused scratch list ranges over all patterns) x 25 automata (nil=match-all, exact(u) for every u and an absent term, 5 prefixes incl. a partial UTF-8 byte, 7 vellum regular expressions, 4 vellum Levenshtein distance-1 automata, never-matching) x EVERY pair of range bounds over 10 values (absent, empty key, equal to / between / below / above existing terms), incl. the degenerate ranges start >= end and [x, \"\") which hold nothing. Oracle: ascending byte order, exactly the accepted terms in range (acceptance decided independently by string functions, Go regexp and an edit-distance function), DictEntry.Count == postings size of that term, Contains for every term of the universe, Cardinality; several live iterators of one dictionary object (every ordered pair over 16 (automaton, range) configurations, stepped in lock step and nested) each return their own sequence; fields without dictionary (absent field, synonym field) give empty results. Non-trivial = term set with >= 2 terms.",
		Assumptions: batchAssumptions,
		Bounds:      map[string]string{"quick": "all 64 term sets x 4 patterns x 6 provenances x 25 automata x 100 ranges", "thorough": "additionally all 256 subsets of an 8-term universe (adds a longer term sharing a prefix and a term above all others) x the same patterns, provenances, automata and ranges"},
		New:         func() interface{} { return &DictCase{} },
		Gen: func(tier string, emit func(interface{})) {
			for _, prov := range []string{"built", "opened", "merged1", "merged2", "updated", "updatedR"} {
				for pattern := 0; pattern < 4; pattern++ {
					for set := 0; set < 1<<uint(len(dictUniverse)); set++ {
						emit(DictCase{Set: set, Pattern: pattern, Prov: prov})
					}
					if tier == "thorough" {
						for set := 0; set < 1<<uint(len(dictUniverseThorough)); set++ {
							if set>>uint(len(dictUniverse)) == 0 {
								continue // already covered by the 6-term universe
							}
							emit(DictCase{Wide: true, Set: set, Pattern: pattern, Prov: prov})
						}
					}
				}
			}
		},
		Run: func(ci interface{}, a *run.Acc) {
			c := *ci.(*DictCase)
			auts, err := automata()
			if err != nil {
				a.Note("harness: cannot build automata: " + err.Error())
				a.Violation("harness", err.Error())
				return
			}
			b := dictBatch(c)
			exp := ref.FromBatch(b)
			var cleanup []func()
			defer func() {
				for i := len(cleanup) - 1; i >= 0; i-- {
					cleanup[i]()
				}
			}()
			seg, _, err := zx.Build(b, 1026)
			if err != nil {
				a.Violation("build-error", err.Error())
				return
			}
			cleanup = append(cleanup, func() { seg.Close() })
			cur := seg
			merges := map[string]int{"built": 0, "opened": 0, "merged1": 1, "merged2": 2, "updated": 1, "updatedR": 1}[c.Prov]
			if c.Prov == "opened" {
				o, path, err := zx.PersistOpen(seg)
				cleanup = append(cleanup, func() { zx.Remove(path) })
				if err != nil {
					a.Violation("persist-error", err.Error())
					return
				}
				cleanup = append(cleanup, func() { o.Close() })
				cur = o
			}
			for i := 0; i < merges; i++ {
				path, _, _, err := zx.Merge([]segment.Segment{cur}, []*roaring.Bitmap{nil}, 1026)
				cleanup = append(cleanup, func() { zx.Remove(path) })
				if err != nil {
					a.Violation("merge-error", err.Error())
					return
				}
				o, err := zx.Plugin.Open(path)
				if err != nil {
					a.Violation("open-error", err.Error())
					return
				}
				cleanup = append(cleanup, func() { o.Close() })
				cur = o
			}
			if strings.HasPrefix(c.Prov, "updated") {
				// document 0 is written again (new segment u) after its segment was merged:
				// merge of the merged segment, with document 0 deleted, and u
				ub := spec.Batch{Docs: []spec.Doc{b.Docs[0]}}
				u, _, err := zx.Build(ub, 1026)
				if err != nil {
					a.Violation("build-error", err.Error())
					return
				}
				cleanup = append(cleanup, func() { u.Close() })
				del := make([]bool, exp.Count)
				del[0] = true
				segs, refs, drops := []segment.Segment{cur, u}, []*ref.Content{exp, ref.FromBatch(ub)}, [][]bool{del, nil}
				if c.Prov == "updatedR" {
					segs, refs, drops = []segment.Segment{u, cur}, []*ref.Content{refs[1], refs[0]}, [][]bool{nil, del}
				}
				bms := make([]*roaring.Bitmap, 2)
				for i, d := range drops {
					if d != nil {
						bms[i] = zx.Bitmap(d, true)
					}
				}
				path, _, _, err := zx.Merge(segs, bms, 1026)
				cleanup = append(cleanup, func() { zx.Remove(path) })
				if err != nil {
					a.Violation("merge-error", err.Error())
					return
				}
				o, err := zx.Plugin.Open(path)
				if err != nil {
					a.Violation("open-error", err.Error())
					return
				}
				cleanup = append(cleanup, func() { o.Close() })
				cur = o
				exp, _ = ref.FromMerge(refs, drops)
			}
			if len(exp.Postings["f"]) >= 2 {
				a.NonTrivial(jsonStr(c))
			}
			t := dictTarget{c.Prov, cur, exp}
			for _, field := range []string{"f", "zz_absent", "s1", "_id"} {
				if msg := checkDictionary(t, field, auts, a); msg != "" {
					kind := "dictionary"
					if strings.Contains(msg, "entries (term:count)") {
						kind = "entries"
					}
					a.Violation(kind, fmt.Sprintf("field %q of the %s segment: %s\nterm set %q pattern %d; batch %s", field, c.Prov, msg, termsOf(c), c.Pattern, jsonStr(b)))
					a.Outcome("violation")
					return
				}
			}
			a.Outcome(fmt.Sprintf("ok/%s/terms=%d", c.Prov, min(len(exp.Postings["f"]), 3)))
		},
	})
}

func termsOf(c DictCase) []string {
	var rv []string
	for i, t := range universeOf(c) {
		if c.Set&(1<<uint(i)) != 0 {
			rv = append(rv, t)
		}
	}
	return rv
}
