// vcheck is the single binary of the verification harness; the build flavour
// (tags verif / vectors / inst / race) decides which checks it contains.
package main

import (
	_ "verif/props"
	"verif/run"
)

func main() { run.Main() }
