// corpusgen writes the frozen corpus of C09(b): it must be built against the
// PINNED zapx commit (go build -modfile with a replace to a worktree of that
// commit), never against /repo's working tree. For every item of
// enum.CorpusItems it writes <name>.zap and <name>.txt (the canonical dump the
// file must produce), after checking that the pinned code itself reads the file
// back as the reference says.
package main

import (
	"fmt"
	"os"
	"path/filepath"

	segment "github.com/blevesearch/scorch_segment_api/v2"

	"verif/dump"
	"verif/enum"
	"verif/mx"
	"verif/ref"
	"verif/run"
	"verif/zx"
)

func main() {
	out := os.Args[1]
	run.ScratchDir = run.Scratch()
	defer os.RemoveAll(run.ScratchDir)
	os.MkdirAll(out, 0755)
	n := 0
	for _, it := range enum.CorpusItems() {
		var exp *ref.Content
		var path string
		merged := false
		var cleanup func()
		if it.Batch != nil {
			b := it.Batch.Batch()
			exp = ref.FromBatch(b)
			seg, _, err := zx.Build(b, it.Batch.Mode())
			if err != nil {
				fmt.Println("SKIP", it.Name, "build:", err)
				continue
			}
			path = zx.TempPath("corpus")
			if err := seg.(segment.UnpersistedSegment).Persist(path); err != nil {
				fmt.Println("SKIP", it.Name, "persist:", err)
				continue
			}
			cleanup = func() { seg.Close() }
		} else {
			ev, err := mx.EvalExpr(enum.Menu(it.Merge.Menu), it.Merge.E, it.Merge.Mode)
			if err != nil {
				fmt.Println("SKIP", it.Name, "merge:", err)
				ev.Close()
				continue
			}
			exp, path, merged = ev.Exp, ev.Path, true
			cleanup = ev.Close
		}
		o, err := zx.Plugin.Open(path)
		if err != nil {
			fmt.Println("SKIP", it.Name, "open:", err)
			cleanup()
			continue
		}
		got, err := dump.Segment(o, dump.UniverseOf(exp))
		sec := ref.All
		sec.NoDVList = merged
		if err != nil || ref.Diff(exp.Render(sec), got.Render(sec)) != "" {
			fmt.Println("SKIP", it.Name, "the pinned code does not read it back as the reference says:", err)
			o.Close()
			cleanup()
			continue
		}
		o.Close()
		b, _ := os.ReadFile(path)
		os.WriteFile(filepath.Join(out, it.Name+".zap"), b, 0644)
		os.WriteFile(filepath.Join(out, it.Name+".txt"), []byte(exp.Render(sec)), 0644)
		cleanup()
		n++
	}
	fmt.Println("corpus files written:", n)
}
