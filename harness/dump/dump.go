// Package dump extracts the complete observable content of a segment through
// the scorch_segment_api surface only.
package dump

import (
	"fmt"
	"sort"

	"github.com/RoaringBitmap/roaring/v2"
	segment "github.com/blevesearch/scorch_segment_api/v2"

	"verif/ref"
)

// Universe lists the names to probe in addition to what the segment itself
// enumerates (so that absent fields / terms are probed as well).
type Universe struct {
	Fields []string
	Terms  []string
	Thes   []string
}

// UniverseOf collects every field, term and thesaurus name of the contents, plus
// fixed absent ones.
func UniverseOf(cs ...*ref.Content) Universe {
	fs, ts, ns := map[string]bool{"zz_absent": true, "": true}, map[string]bool{"zz_absent": true, "": true}, map[string]bool{"zz_absent": true}
	for _, c := range cs {
		for _, f := range c.Fields {
			fs[f] = true
		}
		for f, terms := range c.Postings {
			fs[f] = true
			for t := range terms {
				ts[t] = true
			}
		}
		for n, terms := range c.Thes {
			ns[n] = true
			fs[n] = true
			for t := range terms {
				ts[t] = true
			}
		}
	}
	var u Universe
	for f := range fs {
		u.Fields = append(u.Fields, f)
	}
	for t := range ts {
		u.Terms = append(u.Terms, t)
	}
	for n := range ns {
		u.Thes = append(u.Thes, n)
	}
	sort.Strings(u.Fields)
	sort.Strings(u.Terms)
	sort.Strings(u.Thes)
	return u
}

func union(a []string, b []string) []string {
	m := map[string]bool{}
	for _, x := range a {
		m[x] = true
	}
	for _, x := range b {
		m[x] = true
	}
	var rv []string
	for x := range m {
		rv = append(rv, x)
	}
	sort.Strings(rv)
	return rv
}

// ReadPostings fully iterates a postings iterator.
func ReadPostings(it segment.PostingsIterator) ([]ref.Hit, error) {
	var hits []ref.Hit
	for {
		p, err := it.Next()
		if err != nil {
			return nil, err
		}
		if p == nil {
			return hits, nil
		}
		hits = append(hits, HitOf(p))
	}
}

func HitOf(p segment.Posting) ref.Hit {
	h := ref.Hit{Doc: p.Number(), Freq: p.Frequency()}
	if h.Freq > 0 {
		h.Norm = p.Norm()
	}
	for _, l := range p.Locations() {
		var ap []uint64
		if len(l.ArrayPositions()) > 0 {
			ap = append(ap, l.ArrayPositions()...)
		}
		h.Locs = append(h.Locs, ref.Loc{Field: l.Field(), Pos: l.Pos(), Start: l.Start(), End: l.End(), AP: ap})
	}
	return h
}

// Segment dumps seg. Errors returned by the API are reported as an error (the
// caller treats them as violations: no listed operation may fail on valid input).
func Segment(seg segment.Segment, u Universe) (c *ref.Content, err error) {
	defer func() {
		if r := recover(); r != nil {
			c, err = nil, fmt.Errorf("panic while reading segment: %v", r)
		}
	}()
	c = ref.NewContent()
	c.Count = int(seg.Count())
	c.Fields = append([]string(nil), seg.Fields()...)
	sort.Strings(c.Fields)

	// postings
	for _, f := range union(u.Fields, seg.Fields()) {
		dict, err := seg.Dictionary(f)
		if err != nil {
			return nil, fmt.Errorf("Dictionary(%q): %v", f, err)
		}
		var own []string
		it := dict.AutomatonIterator(nil, nil, nil)
		for {
			e, err := it.Next()
			if err != nil {
				return nil, fmt.Errorf("dictionary iteration of %q: %v", f, err)
			}
			if e == nil {
				break
			}
			own = append(own, e.Term)
		}
		if !sort.StringsAreSorted(own) {
			return nil, fmt.Errorf("dictionary of %q not in ascending order: %q", f, own)
		}
		for _, t := range union(u.Terms, own) {
			pl, err := dict.PostingsList([]byte(t), nil, nil)
			if err != nil {
				return nil, fmt.Errorf("PostingsList(%q,%q): %v", f, t, err)
			}
			hits, err := ReadPostings(pl.Iterator(true, true, true, nil))
			if err != nil {
				return nil, fmt.Errorf("iterating (%q,%q): %v", f, t, err)
			}
			if uint64(len(hits)) != pl.Count() {
				return nil, fmt.Errorf("(%q,%q): Count()=%d but %d hits iterated", f, t, pl.Count(), len(hits))
			}
			inDict := false
			for _, o := range own {
				if o == t {
					inDict = true
				}
			}
			if inDict != (len(hits) > 0) {
				return nil, fmt.Errorf("(%q,%q): in dictionary=%v but %d hits", f, t, inDict, len(hits))
			}
			if len(hits) > 0 {
				if c.Postings[f] == nil {
					c.Postings[f] = map[string][]ref.Hit{}
				}
				c.Postings[f][t] = hits
			}
		}
	}

	// stored (also probes two doc numbers beyond Count)
	for d := uint64(0); d < seg.Count()+2; d++ {
		var sv []ref.StoredVal
		err := seg.VisitStoredFields(d, func(field string, typ byte, value []byte, pos []uint64) bool {
			var ap []uint64
			if len(pos) > 0 {
				ap = append(ap, pos...)
			}
			sv = append(sv, ref.StoredVal{Field: field, Typ: typ, Val: append([]byte{}, value...), AP: ap})
			return true
		})
		if err != nil {
			return nil, fmt.Errorf("VisitStoredFields(%d): %v", d, err)
		}
		id, err := seg.DocID(d)
		if err != nil {
			return nil, fmt.Errorf("DocID(%d): %v", d, err)
		}
		if d >= seg.Count() {
			if len(sv) != 0 || id != nil {
				return nil, fmt.Errorf("doc %d >= Count %d visits %d values, DocID %q", d, seg.Count(), len(sv), id)
			}
			continue
		}
		if len(sv) == 0 || sv[0].Field != "_id" || string(sv[0].Val) != string(id) {
			return nil, fmt.Errorf("doc %d: DocID %q but stored visit starts with %v", d, id, sv)
		}
		c.Stored = append(c.Stored, sv)
	}

	// doc values
	if dvs, ok := seg.(segment.DocValueVisitable); ok {
		fs, err := dvs.VisitableDocValueFields()
		if err != nil {
			return nil, fmt.Errorf("VisitableDocValueFields: %v", err)
		}
		c.DVFields = append([]string(nil), fs...)
		sort.Strings(c.DVFields)
		for _, f := range union(u.Fields, seg.Fields()) {
			for d := uint64(0); d < seg.Count(); d++ { // doc numbers beyond Count are not documents: C03 says nothing about them
				var terms []string
				_, err := dvs.VisitDocValues(d, []string{f}, func(field string, term []byte) {
					if field != f {
						terms = append(terms, "!wrong-field:"+field)
					}
					terms = append(terms, string(term))
				}, nil)
				if err != nil {
					return nil, fmt.Errorf("VisitDocValues(%d,%q): %v", d, f, err)
				}
				if len(terms) > 0 {
					sort.Strings(terms)
					if c.DV[f] == nil {
						c.DV[f] = map[uint64][]string{}
					}
					c.DV[f][d] = terms
				}
			}
		}
	}

	// thesauri
	if ts, ok := seg.(segment.ThesaurusSegment); ok {
		for _, n := range union(u.Thes, seg.Fields()) {
			th, err := ts.Thesaurus(n)
			if err != nil {
				return nil, fmt.Errorf("Thesaurus(%q): %v", n, err)
			}
			var own []string
			it := th.AutomatonIterator(nil, nil, nil)
			for {
				e, err := it.Next()
				if err != nil {
					return nil, fmt.Errorf("thesaurus iteration of %q: %v", n, err)
				}
				if e == nil {
					break
				}
				own = append(own, e.Term)
			}
			if !sort.StringsAreSorted(own) {
				return nil, fmt.Errorf("thesaurus %q keys not ascending: %q", n, own)
			}
			for _, t := range union(u.Terms, own) {
				ps, err := ReadSynonyms(th, t, nil)
				if err != nil {
					return nil, fmt.Errorf("thesaurus %q term %q: %v", n, t, err)
				}
				inKeys := false
				for _, o := range own {
					if o == t {
						inKeys = true
					}
				}
				has, err := th.Contains([]byte(t))
				if err != nil {
					return nil, err
				}
				if has != inKeys || inKeys != (len(ps) > 0) {
					return nil, fmt.Errorf("thesaurus %q term %q: Contains=%v enumerated=%v pairs=%d", n, t, has, inKeys, len(ps))
				}
				if len(ps) > 0 {
					if c.Thes[n] == nil {
						c.Thes[n] = map[string][]ref.SynPair{}
					}
					c.Thes[n][t] = ps
				}
			}
		}
	}
	return c, nil
}

// ReadSynonyms returns the sorted (synonym, doc) pairs; a pair seen twice is
// kept twice (so that duplicates show up in the comparison).
func ReadSynonyms(th segment.Thesaurus, term string, except *roaring.Bitmap) ([]ref.SynPair, error) {
	sl, err := th.SynonymsList([]byte(term), except, nil)
	if err != nil {
		return nil, err
	}
	it := sl.Iterator(nil)
	var ps []ref.SynPair
	for {
		s, err := it.Next()
		if err != nil {
			return nil, err
		}
		if s == nil {
			break
		}
		ps = append(ps, ref.SynPair{Syn: s.Term(), Doc: s.Number()})
	}
	sort.Slice(ps, func(a, b int) bool {
		if ps[a].Syn != ps[b].Syn {
			return ps[a].Syn < ps[b].Syn
		}
		return ps[a].Doc < ps[b].Doc
	})
	return ps, nil
}
