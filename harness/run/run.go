// Package run is the shared driver of all checks: deterministic case
// enumeration, static sharding over worker sub-processes, crash attribution,
// known-findings handling, replay files and evidence files.
package run

import (
	"bufio"
	"encoding/binary"
	"encoding/json"
	"fmt"
	"hash/fnv"
	"os"
	"os/exec"
	"path/filepath"
	"runtime"
	"runtime/debug"
	"sort"
	"strconv"
	"strings"
	"sync"
	"time"
)

// VerifDir is the root of the verification tree (evidence, replays, corpus,
// known findings); check.sh exports VERIF_DIR as its own directory so that a
// snapshot of /verif (vp run) works on itself.
var VerifDir = func() string {
	if d := os.Getenv("VERIF_DIR"); d != "" {
		return d
	}
	return "/verif"
}()

// Acc accumulates what one worker covered.
type Acc struct {
	Evals       int64             `json:"evals"`
	Cases       int64             `json:"cases"`
	Nontrivial  map[uint64]bool   `json:"-"`
	NontrivialL []uint64          `json:"nontrivial"`
	States      map[uint64]bool   `json:"-"`
	StatesL     []uint64          `json:"states"`
	Transitions int64             `json:"transitions"`
	Traces      int64             `json:"traces"`
	Outcomes    map[string]int64  `json:"outcomes"`
	Counters    map[string]int64  `json:"counters"`
	Samples     []json.RawMessage `json:"samples"`
	Violations  []Violation       `json:"violations"`
	Capped      bool              `json:"capped"`
	Notes       []string          `json:"notes"`

	cur    json.RawMessage
	perSig map[string]int // violations recorded per signature (not serialised)
}

type Violation struct {
	Flavour string          `json:"flavour"`
	Sig     string          `json:"sig"`
	Msg     string          `json:"msg"`
	Case    json.RawMessage `json:"case"`
}

func newAcc() *Acc {
	return &Acc{Nontrivial: map[uint64]bool{}, States: map[uint64]bool{}, Outcomes: map[string]int64{}, Counters: map[string]int64{}}
}

func h64(s string) uint64 {
	h := fnv.New64a()
	h.Write([]byte(s))
	return h.Sum64()
}

// Eval counts n executions / evaluations of the property's oracle.
func (a *Acc) Eval(n int) { a.Evals += int64(n) }

// NonTrivial records a distinct non-trivial case key.
func (a *Acc) NonTrivial(key string) { a.Nontrivial[h64(key)] = true }

// State records a canonical state key; returns true if new (in this worker).
func (a *Acc) State(key string) bool {
	h := h64(key)
	if a.States[h] {
		return false
	}
	a.States[h] = true
	return true
}
func (a *Acc) Transition(n int)     { a.Transitions += int64(n) }
func (a *Acc) Trace(n int)          { a.Traces += int64(n) }
func (a *Acc) Outcome(label string) { a.Outcomes[label]++ }
func (a *Acc) Count(name string, n int) {
	a.Counters[name] += int64(n)
}
func (a *Acc) Note(s string) {
	for _, n := range a.Notes {
		if n == s {
			return
		}
	}
	if len(a.Notes) < 20 {
		a.Notes = append(a.Notes, s)
	}
}
func (a *Acc) Sample(v interface{}) {
	if len(a.Samples) < 2 {
		b, _ := json.Marshal(v)
		if len(b) > 3000 {
			b, _ = json.Marshal(string(b[:3000]) + "...(truncated)")
		}
		a.Samples = append(a.Samples, b)
	}
}

// Violation records a property violation for the current case. sig identifies
// the failing input class / call site (used for known-findings matching).
func (a *Acc) Violation(sig, msg string) {
	// the cap is per signature: a known finding that is hit by hundreds of cases must not
	// use up the room of a different violation reported later by the same worker
	if a.perSig == nil {
		a.perSig = map[string]int{}
	}
	a.perSig[sig]++
	if a.perSig[sig] > 25 || len(a.Violations) >= 2000 {
		return
	}
	if len(msg) > 3000 {
		msg = msg[:3000] + "..."
	}
	a.Violations = append(a.Violations, Violation{Flavour: Flavour, Sig: sig, Msg: msg, Case: a.cur})
}

// Def is one registered check.
type Def struct {
	ID          string
	Level       string // evidence level
	Rule        string
	Assumptions []string
	Bounds      map[string]string // tier -> description of the bounds completed
	// Gen enumerates the cases of a tier deterministically; emit's argument must be
	// JSON-serialisable and Run must accept its decoded form.
	Gen func(tier string, emit func(c interface{}))
	// Run executes one case (already decoded from JSON into the value returned by New).
	New     func() interface{}
	Run     func(c interface{}, a *Acc)
	Workers int // 0 = default (number of CPUs)
	// Flavours lists the build flavours (plain, vec, inst, instvec, race, racevec) whose
	// binaries run the case space, in order; nil = the parent's own flavour. Gen and
	// Run may consult run.Flavour.
	Flavours func(tier string) []string
	Extra    func(tier string) map[string]interface{}
}

// Flavour is the build flavour of the stage being generated / run.
var Flavour = SelfFlavour()

// SelfFlavour derives this binary's flavour from its build tags.
func SelfFlavour() string {
	f := "plain"
	switch {
	case hasRace:
		f = "race"
	case hasInst:
		f = "inst"
	}
	if hasVectors {
		if f == "plain" {
			return "vec"
		}
		return f + "vec"
	}
	return f
}

var defs = map[string]*Def{}

func Register(d *Def) { defs[d.ID] = d }

func IDs() []string {
	var ids []string
	for id := range defs {
		ids = append(ids, id)
	}
	sort.Strings(ids)
	return ids
}

func budget(tier string) time.Duration {
	if s := os.Getenv("VERIF_BUDGET"); s != "" {
		if n, err := strconv.Atoi(s); err == nil {
			return time.Duration(n) * time.Second
		}
	}
	if tier == "quick" {
		return 240 * time.Second
	}
	return 3 * time.Hour
}

// Scratch returns a private scratch directory on tmpfs.
func Scratch() string {
	base := "/dev/shm"
	if _, err := os.Stat(base); err != nil {
		base = os.TempDir()
	}
	d, err := os.MkdirTemp(base, "verif-")
	if err != nil {
		panic(err)
	}
	return d
}

// OutDir is where evidence and replay files are written: VERIF_OUT if set (scratch
// runs against a modified copy of the repository must not overwrite the evidence of
// the registered checks), else VerifDir.
var OutDir = func() string {
	if d := os.Getenv("VERIF_OUT"); d != "" {
		return d
	}
	return VerifDir
}()

// ScratchDir is the scratch directory of this process (worker or replay).
var ScratchDir string

// Main is the entry point of the vcheck binary.
func Main() {
	if len(os.Args) < 2 {
		fmt.Fprintln(os.Stderr, "usage: vcheck <id> <quick|thorough> | replay <file> | worker ... | list")
		os.Exit(2)
	}
	switch os.Args[1] {
	case "list":
		for _, id := range IDs() {
			fmt.Println(id)
		}
	case "case":
		// case <id> <tier> <flavour> <index>: print the JSON of one generated case
		d := mustDef(os.Args[2])
		Flavour = os.Args[4]
		want, _ := strconv.Atoi(os.Args[5])
		k := -1
		d.Gen(os.Args[3], func(c interface{}) {
			k++
			if k == want {
				b, _ := json.Marshal(map[string]interface{}{"property": os.Args[2], "tier": os.Args[3], "flavour": os.Args[4], "sig": "manual", "case": c})
				fmt.Println(string(b))
			}
		})
	case "worker":
		worker(os.Args[2:])
	case "replay":
		replay(os.Args[2])
	default:
		tier := "quick"
		if len(os.Args) > 2 {
			tier = os.Args[2]
		}
		os.Exit(parent(os.Args[1], tier))
	}
}

func mustDef(id string) *Def {
	d := defs[id]
	if d == nil {
		fmt.Fprintf(os.Stderr, "unknown check %q in this build flavour (have %v)\n", id, IDs())
		os.Exit(2)
	}
	return d
}

func runCase(d *Def, raw json.RawMessage, a *Acc) {
	c := d.New()
	if err := json.Unmarshal(raw, c); err != nil {
		panic(fmt.Sprintf("harness: cannot decode case: %v", err))
	}
	a.cur = raw
	a.Cases++
	func() {
		defer func() {
			if r := recover(); r != nil {
				st := string(debug.Stack())
				// attribute: a panic inside zapx on valid input is a violation; a panic
				// inside the harness is a harness error but still must not pass silently.
				a.Violation("panic", fmt.Sprintf("panic: %v\n%s", r, trimStack(st)))
			}
		}()
		d.Run(c, a)
	}()
}

func trimStack(s string) string {
	lines := strings.Split(s, "\n")
	var out []string
	for _, l := range lines {
		if strings.Contains(l, "runtime/debug") || strings.Contains(l, "runtime/panic") {
			continue
		}
		out = append(out, l)
		if len(out) > 24 {
			break
		}
	}
	return strings.Join(out, "\n")
}

// worker <id> <tier> <i> <n> <dir> <flavour>
func worker(args []string) {
	d := mustDef(args[0])
	tier := args[1]
	i, _ := strconv.Atoi(args[2])
	n, _ := strconv.Atoi(args[3])
	dir := args[4]
	Flavour = args[5]
	if Flavour != SelfFlavour() {
		panic("harness: worker binary of flavour " + SelfFlavour() + " started for stage " + Flavour)
	}
	ScratchDir = filepath.Join(dir, fmt.Sprintf("w%d", i))
	os.MkdirAll(ScratchDir, 0700)
	prog, err := os.OpenFile(filepath.Join(dir, fmt.Sprintf("progress.%d", i)), os.O_RDWR|os.O_CREATE, 0600)
	if err != nil {
		panic(err)
	}
	deadline := time.Now().Add(budget(tier))
	a := newAcc()
	idx := -1
	var buf [8]byte
	d.Gen(tier, func(c interface{}) {
		idx++
		if idx%n != i {
			return
		}
		if a.Capped {
			return
		}
		if idx%64 == i%64 && time.Now().After(deadline) {
			a.Capped = true
			a.Note(fmt.Sprintf("time budget reached at case %d", idx))
			return
		}
		raw, err := json.Marshal(c)
		if err != nil {
			panic(err)
		}
		binary.LittleEndian.PutUint64(buf[:], uint64(idx))
		prog.WriteAt(buf[:], 0)
		if a.Cases < 2 {
			a.Sample(c)
		}
		runCase(d, raw, a)
	})
	salt := h64("flavour:" + Flavour)
	for k := range a.Nontrivial {
		a.NontrivialL = append(a.NontrivialL, k^salt)
	}
	for k := range a.States {
		a.StatesL = append(a.StatesL, k)
	}
	out, _ := json.Marshal(a)
	if err := os.WriteFile(filepath.Join(dir, fmt.Sprintf("result.%d", i)), out, 0600); err != nil {
		panic(err)
	}
	binary.LittleEndian.PutUint64(buf[:], ^uint64(0))
	prog.WriteAt(buf[:], 0)
}

type known struct {
	prop, sig, desc string
}

func loadKnown() []known {
	var rv []known
	f, err := os.Open(filepath.Join(VerifDir, "known_findings.txt"))
	if err != nil {
		return nil
	}
	defer f.Close()
	sc := bufio.NewScanner(f)
	for sc.Scan() {
		line := strings.TrimSpace(sc.Text())
		if !strings.HasPrefix(line, "known:") {
			continue // comments and "fixed:" lines suppress nothing
		}
		var k known
		rest := strings.TrimSpace(strings.TrimPrefix(line, "known:"))
		for _, tok := range strings.SplitN(rest, " ", 3) {
			switch {
			case strings.HasPrefix(tok, "property="):
				k.prop = strings.TrimPrefix(tok, "property=")
			case strings.HasPrefix(tok, "sig="):
				k.sig = strings.TrimPrefix(tok, "sig=")
			default:
				k.desc = tok
			}
		}
		rv = append(rv, k)
	}
	return rv
}

func parent(id, tier string) int {
	d := mustDef(id)
	start := time.Now()
	seed := int64(0)
	if s := os.Getenv("VERIF_SEED"); s != "" {
		seed, _ = strconv.ParseInt(s, 10, 64)
	}
	n := d.Workers
	if n == 0 {
		n = runtime.NumCPU()
		if n > 16 {
			n = 16
		}
	}
	self, _ := os.Executable()
	stages := []string{SelfFlavour()}
	if d.Flavours != nil {
		stages = d.Flavours(tier)
	}

	total := newAcc()
	inconclusive := false
	var crashed []Violation
	hard := budget(tier) + 3*time.Minute

	for _, flavour := range stages {
		bin := self
		if flavour != SelfFlavour() {
			bin = os.Getenv("VCHECK_" + strings.ToUpper(flavour))
			if bin == "" {
				total.Note("stage " + flavour + " skipped: no binary (VCHECK_" + strings.ToUpper(flavour) + " unset)")
				inconclusive = true
				continue
			}
		}
		dir := Scratch()
		type res struct {
			err  error
			out  []byte
			kill bool
		}
		results := make([]res, n)
		var wg sync.WaitGroup
		// VERIF_SEED only rotates the order in which shards are started.
		for k := 0; k < n; k++ {
			i := (k + int(seed%int64(n)) + n) % n
			wg.Add(1)
			go func(i int) {
				defer wg.Done()
				cmd := exec.Command(bin, "worker", id, tier, strconv.Itoa(i), strconv.Itoa(n), dir, flavour)
				cmd.Env = append(os.Environ(), "GOMAXPROCS=2", "GORACE=halt_on_error=1 exitcode=66")
				var sb strings.Builder
				cmd.Stdout = &sb
				cmd.Stderr = &sb
				if err := cmd.Start(); err != nil {
					results[i] = res{err: err}
					return
				}
				done := make(chan error, 1)
				go func() { done <- cmd.Wait() }()
				select {
				case err := <-done:
					results[i] = res{err: err, out: []byte(sb.String())}
				case <-time.After(hard):
					cmd.Process.Kill()
					<-done
					results[i] = res{kill: true, out: []byte(sb.String())}
				}
			}(i)
		}
		wg.Wait()

		for i := 0; i < n; i++ {
			r := results[i]
			b, err := os.ReadFile(filepath.Join(dir, fmt.Sprintf("result.%d", i)))
			if err == nil && r.err == nil && !r.kill {
				var a Acc
				if err := json.Unmarshal(b, &a); err != nil {
					fmt.Printf("harness: bad result of worker %d: %v\n", i, err)
					inconclusive = true
					continue
				}
				total.Evals += a.Evals
				total.Cases += a.Cases
				total.Transitions += a.Transitions
				total.Traces += a.Traces
				for _, k := range a.NontrivialL {
					total.Nontrivial[k] = true
				}
				for _, k := range a.StatesL {
					total.States[k] = true
				}
				for k, v := range a.Outcomes {
					total.Outcomes[k] += v
				}
				for k, v := range a.Counters {
					total.Counters[k] += v
				}
				total.Counters["cases."+flavour] += a.Cases
				if len(total.Samples) < 3 {
					total.Samples = append(total.Samples, a.Samples...)
				}
				total.Violations = append(total.Violations, a.Violations...)
				total.Capped = total.Capped || a.Capped
				for _, nn := range a.Notes {
					total.Note(nn)
				}
				continue
			}
			// abnormal end: attribute to the case in progress
			pb, _ := os.ReadFile(filepath.Join(dir, fmt.Sprintf("progress.%d", i)))
			idx := int64(-1)
			if len(pb) == 8 {
				idx = int64(binary.LittleEndian.Uint64(pb))
			}
			tail := string(r.out)
			if len(tail) > 3000 {
				tail = tail[:1800] + "\n...\n" + tail[len(tail)-1000:]
			}
			if r.kill {
				total.Note(fmt.Sprintf("%s worker %d killed by the hang watchdog at case %d (inconclusive, not a violation)", flavour, i, idx))
				inconclusive = true
				continue
			}
			if idx < 0 {
				fmt.Printf("harness: %s worker %d failed before its first case: %v\n%s\n", flavour, i, r.err, tail)
				inconclusive = true
				total.Note(fmt.Sprintf("%s worker %d failed before its first case: %v", flavour, i, r.err))
				continue
			}
			// regenerate the case
			var raw json.RawMessage
			k := int64(-1)
			saved := Flavour
			Flavour = flavour
			d.Gen(tier, func(c interface{}) {
				k++
				if k == idx {
					raw, _ = json.Marshal(c)
				}
			})
			Flavour = saved
			sig := "crash"
			if strings.Contains(tail, "DATA RACE") {
				sig = "race"
			}
			crashed = append(crashed, Violation{Flavour: flavour, Sig: sig, Msg: fmt.Sprintf("%s worker process died (%v) while running this case:\n%s", flavour, r.err, tail), Case: raw})
		}
		os.RemoveAll(dir)
	}
	total.Violations = append(total.Violations, crashed...)

	// classify violations
	kn := loadKnown()
	os.MkdirAll(filepath.Join(OutDir, "replays"), 0755)
	old, _ := filepath.Glob(filepath.Join(OutDir, "replays", id+"-*.json"))
	for _, f := range old {
		os.Remove(f)
	}
	knownHit := map[string]int{}
	nviol := 0
	var lines []string
	for _, v := range total.Violations {
		matched := false
		for _, k := range kn {
			if k.prop == id && k.sig == v.Sig {
				knownHit[k.sig+" "+k.desc]++
				matched = true
				break
			}
		}
		if matched {
			continue
		}
		nviol++
		if nviol > 20 {
			continue
		}
		path := filepath.Join(OutDir, "replays", fmt.Sprintf("%s-%d.json", id, nviol))
		rb, _ := json.MarshalIndent(map[string]interface{}{"property": id, "tier": tier, "flavour": v.Flavour, "sig": v.Sig, "msg": v.Msg, "case": v.Case}, "", " ")
		os.WriteFile(path, rb, 0644)
		lines = append(lines, fmt.Sprintf("--- %s sig=%s\n%s", id, v.Sig, v.Msg))
		lines = append(lines, fmt.Sprintf("VIOLATION property=%s replay=%s", id, path))
	}
	var kl []string
	for k := range knownHit {
		kl = append(kl, k)
	}
	sort.Strings(kl)
	for _, k := range kl {
		fmt.Printf("KNOWN-FINDING: property=%s %s (hit %d times)\n", id, k, knownHit[k])
	}
	for _, l := range lines {
		fmt.Println(l)
	}

	exhaustive := !total.Capped && !inconclusive
	wall := time.Since(start).Seconds()
	cov := map[string]interface{}{
		"evaluations":         total.Evals,
		"cases":               total.Cases,
		"distinct_nontrivial": len(total.Nontrivial),
		"rule":                d.Rule,
		"exhaustive":          exhaustive,
		"distinct_outcomes":   len(total.Outcomes),
		"outcomes":            total.Outcomes,
		"counters":            total.Counters,
		"workers":             n,
		"notes":               total.Notes,
		"known_findings_hit":  kl,
	}
	if d.Bounds != nil {
		cov["bounds_completed"] = d.Bounds[tier]
	}
	var samples []interface{}
	for _, s := range total.Samples {
		samples = append(samples, s)
	}
	if len(samples) == 0 {
		samples = append(samples, "none")
	}
	cov["samples"] = samples
	if d.Level == "model_checking" {
		cov["states"] = len(total.States)
		cov["transitions"] = total.Transitions
		cov["traces_validated_against_impl"] = total.Traces
		cov["explanation"] = "every explored trace is an execution of the implementation itself (no separate model); traces_validated_against_impl counts those executions"
	}
	if d.Extra != nil {
		for k, v := range d.Extra(tier) {
			cov[k] = v
		}
	}
	ev := map[string]interface{}{
		"property_id": id,
		"tier":        tier,
		"seed":        seed,
		"level":       d.Level,
		"coverage":    cov,
		"assumptions": d.Assumptions,
		"wall_s":      wall,
		"violations":  nviol,
	}
	eb, _ := json.MarshalIndent(ev, "", " ")
	os.MkdirAll(filepath.Join(OutDir, "evidence"), 0755)
	if err := os.WriteFile(filepath.Join(OutDir, "evidence", id+".json"), eb, 0644); err != nil {
		fmt.Println("harness: cannot write evidence:", err)
	}
	fmt.Printf("%s %s: cases=%d evaluations=%d distinct_nontrivial=%d states=%d transitions=%d outcomes=%d exhaustive=%v violations=%d known=%d wall=%.1fs\n",
		id, tier, total.Cases, total.Evals, len(total.Nontrivial), len(total.States), total.Transitions, len(total.Outcomes), exhaustive, nviol, len(kl), wall)
	if nviol > 0 {
		return 1
	}
	return 0
}

func replay(path string) {
	b, err := os.ReadFile(path)
	if err != nil {
		fmt.Println(err)
		os.Exit(2)
	}
	var r struct {
		Property string          `json:"property"`
		Tier     string          `json:"tier"`
		Sig      string          `json:"sig"`
		Flavour  string          `json:"flavour"`
		Case     json.RawMessage `json:"case"`
	}
	if err := json.Unmarshal(b, &r); err != nil {
		fmt.Println(err)
		os.Exit(2)
	}
	if r.Flavour != "" && r.Flavour != SelfFlavour() {
		bin := os.Getenv("VCHECK_" + strings.ToUpper(r.Flavour))
		if bin == "" {
			fmt.Println("replay needs the", r.Flavour, "binary (use ./check.sh replay)")
			os.Exit(2)
		}
		cmd := exec.Command(bin, "replay", path)
		cmd.Stdout, cmd.Stderr = os.Stdout, os.Stderr
		if err := cmd.Run(); err != nil {
			os.Exit(1)
		}
		return
	}
	Flavour = SelfFlavour()
	d := mustDef(r.Property)
	ScratchDir = Scratch()
	defer os.RemoveAll(ScratchDir)
	// Go map iteration order inside zapx cannot be owned: retry a few times.
	for try := 0; try < 16; try++ {
		a := newAcc()
		runCase(d, r.Case, a)
		if len(a.Violations) > 0 {
			for _, v := range a.Violations {
				fmt.Printf("--- %s sig=%s (attempt %d)\n%s\n", r.Property, v.Sig, try+1, v.Msg)
			}
			fmt.Printf("VIOLATION property=%s replay=%s\n", r.Property, path)
			os.RemoveAll(ScratchDir)
			os.Exit(1)
		}
	}
	fmt.Printf("replay of %s: no violation in 16 attempts\n", path)
}
