//go:build race

package run

const hasRace = true
