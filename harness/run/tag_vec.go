//go:build vectors

package run

const hasVectors = true
