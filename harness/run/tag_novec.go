//go:build !vectors

package run

const hasVectors = false
