//go:build !inst

package run

const hasInst = false
