//go:build inst

package run

const hasInst = true
