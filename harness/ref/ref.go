// Package ref is the boring reference model: it computes, from a batch
// specification alone, the complete observable content a segment must have.
package ref

import (
	"fmt"
	"math"
	"sort"
	"strings"

	"verif/spec"
)

type Loc struct {
	Field      string
	Pos, Start uint64
	End        uint64
	AP         []uint64
}

type Hit struct {
	Doc  uint64
	Freq uint64
	Norm float64 // only meaningful when Freq > 0
	Locs []Loc
}

type StoredVal struct {
	Field string
	Typ   byte
	Val   []byte
	AP    []uint64
}

type SynPair struct {
	Syn string
	Doc uint32
}

type VecEntry struct {
	Doc uint32
	Vec []float32
}

type VecField struct {
	Dims   int
	Metric string
	Vecs   []VecEntry
}

// Content is everything observable through the segment API.
type Content struct {
	Count    int
	Fields   []string                        // sorted set
	Postings map[string]map[string][]Hit     // field -> term -> hits (non-empty lists only)
	Stored   [][]StoredVal                   // per doc, `_id` first
	DV       map[string]map[uint64][]string  // dv field -> doc -> sorted distinct terms (non-empty only)
	DVFields []string                        // sorted set
	Thes     map[string]map[string][]SynPair // thesaurus -> term -> sorted pairs
	Vecs     map[string]*VecField
}

func NewContent() *Content {
	return &Content{
		Postings: map[string]map[string][]Hit{},
		DV:       map[string]map[uint64][]string{},
		Thes:     map[string]map[string][]SynPair{},
		Vecs:     map[string]*VecField{},
	}
}

func NormOf(length int) float64 {
	return float64(float32(1.0 / math.Sqrt(float64(uint32(length)))))
}

// FieldNames returns `_id` + sorted other names occurring in the batch (zapx's
// field numbering), or nil for an empty batch... note zapx defines `_id` even for
// an empty batch internally, but an empty build exposes no fields.
func FieldNames(b spec.Batch) []string {
	seen := map[string]bool{}
	var names []string
	for _, d := range b.Docs {
		for _, f := range d.Composite {
			if !seen[f.Name] {
				seen[f.Name] = true
				names = append(names, f.Name)
			}
		}
		for _, f := range d.AllFields() {
			if !seen[f.Name] {
				seen[f.Name] = true
				names = append(names, f.Name)
			}
		}
	}
	if len(b.Docs) == 0 {
		return nil
	}
	var rest []string
	for _, n := range names {
		if n != "_id" {
			rest = append(rest, n)
		}
	}
	sort.Strings(rest)
	return append([]string{"_id"}, rest...)
}

// FromBatch computes the content of a segment built from b.
func FromBatch(b spec.Batch) *Content {
	c := NewContent()
	c.Count = len(b.Docs)
	c.Fields = append([]string(nil), FieldNames(b)...)
	sort.Strings(c.Fields)
	fieldID := map[string]int{}
	for i, n := range FieldNames(b) {
		fieldID[n] = i
	}
	dvFields := map[string]bool{}
	shapes := map[string]map[uint64]string{}

	for di, d := range b.Docs {
		docNum := uint64(di)
		// --- postings: accumulate per field name in visiting order (composite first)
		type acc struct {
			length int
			order  []string
			toks   map[string]*Hit
		}
		accs := map[string]*acc{}
		var accOrder []string
		visit := func(f spec.Field) {
			if f.IsSynonym() || f.IsVector() {
				return
			}
			a := accs[f.Name]
			first := a == nil
			if a == nil {
				a = &acc{toks: map[string]*Hit{}}
				accs[f.Name] = a
				accOrder = append(accOrder, f.Name)
			}
			a.length += f.Len
			for _, t := range f.Toks {
				h := a.toks[t.Term]
				if h == nil {
					h = &Hit{Doc: docNum}
					a.toks[t.Term] = h
					a.order = append(a.order, t.Term)
				}
				h.Freq += uint64(t.Freq)
				for _, l := range t.Locs {
					// the first instance of a field name keeps the location's own
					// field (a composite field names its source field); instances
					// merged into it get the field's own name; "" means the field itself.
					lf := l.Field
					if !first || lf == "" {
						lf = f.Name
					}
					var ap []uint64
					if len(l.AP) > 0 {
						ap = append(ap, l.AP...)
					}
					h.Locs = append(h.Locs, Loc{Field: lf, Pos: uint64(l.Pos), Start: uint64(l.Start), End: uint64(l.End), AP: ap})
				}
			}
			if f.DV {
				dvFields[f.Name] = true
			}
			if f.Shape != nil {
				if shapes[f.Name] == nil {
					shapes[f.Name] = map[uint64]string{}
				}
				shapes[f.Name][uint64(docNum)] = string(f.Shape) // the last instance wins
			}
		}
		for _, f := range d.Composite {
			visit(f)
		}
		for _, f := range d.AllFields() {
			visit(f)
		}
		for _, name := range accOrder {
			a := accs[name]
			for _, term := range a.order {
				h := a.toks[term]
				if h.Freq > 0 {
					h.Norm = NormOf(a.length)
				}
				if c.Postings[name] == nil {
					c.Postings[name] = map[string][]Hit{}
				}
				c.Postings[name][term] = append(c.Postings[name][term], *h)
			}
		}

		// --- stored
		var sv []StoredVal
		sv = append(sv, StoredVal{Field: "_id", Typ: 't', Val: []byte(d.ID)})
		type sf struct {
			id  int
			seq int
			v   StoredVal
		}
		var sfs []sf
		for i, f := range d.AllFields() {
			if !f.Stored || f.Name == "_id" {
				continue
			}
			typ := f.Typ
			if typ == 0 {
				typ = 't'
			}
			var ap []uint64
			if len(f.AP) > 0 {
				ap = append(ap, f.AP...)
			}
			sfs = append(sfs, sf{fieldID[f.Name], i, StoredVal{Field: f.Name, Typ: typ, Val: append([]byte{}, f.Value...), AP: ap}})
		}
		sort.SliceStable(sfs, func(a, b int) bool { return sfs[a].id < sfs[b].id })
		for _, s := range sfs {
			sv = append(sv, s.v)
		}
		c.Stored = append(c.Stored, sv)

		// --- synonyms
		for _, f := range d.AllFields() {
			if !f.IsSynonym() {
				continue
			}
			if c.Thes[f.Name] == nil {
				c.Thes[f.Name] = map[string][]SynPair{}
			}
			for _, e := range f.Syn {
				for _, s := range e.Syns {
					c.Thes[f.Name][e.Term] = append(c.Thes[f.Name][e.Term], SynPair{s, uint32(docNum)})
				}
			}
		}
		// --- vectors
		for _, f := range d.AllFields() {
			if !f.IsVector() || f.Dims <= 0 {
				continue
			}
			vf := c.Vecs[f.Name]
			n := len(f.Vec) / f.Dims
			if n == 0 {
				continue
			}
			if vf == nil {
				vf = &VecField{Dims: f.Dims, Metric: f.Sim}
				c.Vecs[f.Name] = vf
			}
			for i := 0; i < n; i++ {
				vf.Vecs = append(vf.Vecs, VecEntry{uint32(docNum), append([]float32(nil), f.Vec[i*f.Dims:(i+1)*f.Dims]...)})
			}
		}
	}

	// doc values: for dv fields, per doc the set of terms of that doc in that field
	for name := range dvFields {
		c.DVFields = append(c.DVFields, name)
		for term, hits := range c.Postings[name] {
			for _, h := range hits {
				if c.DV[name] == nil {
					c.DV[name] = map[uint64][]string{}
				}
				c.DV[name][h.Doc] = append(c.DV[name][h.Doc], term)
			}
		}
		// the encoded shape of a geo-shape field is one more doc-value term of the document
		for d, sh := range shapes[name] {
			if c.DV[name] == nil {
				c.DV[name] = map[uint64][]string{}
			}
			c.DV[name][d] = append(c.DV[name][d], sh)
		}
		for d := range c.DV[name] {
			sort.Strings(c.DV[name][d])
		}
	}
	sort.Strings(c.DVFields)
	c.normalize()
	return c
}

func (c *Content) normalize() {
	for _, terms := range c.Thes {
		for t, ps := range terms {
			sort.Slice(ps, func(a, b int) bool {
				if ps[a].Syn != ps[b].Syn {
					return ps[a].Syn < ps[b].Syn
				}
				return ps[a].Doc < ps[b].Doc
			})
			// dedupe
			out := ps[:0]
			for i, p := range ps {
				if i == 0 || p != ps[i-1] {
					out = append(out, p)
				}
			}
			terms[t] = out
		}
	}
}

// Survivors describes a merge: for each input batch, which docs are dropped.
// FromMerge returns the content of the merged segment and the expected
// renumbering maps (MaxUint64 for dropped documents).
func FromMerge(inputs []*Content, drops [][]bool) (*Content, [][]uint64) {
	c := NewContent()
	maps := make([][]uint64, len(inputs))
	next := uint64(0)
	for si, in := range inputs {
		maps[si] = make([]uint64, in.Count)
		for d := 0; d < in.Count; d++ {
			if drops[si] != nil && drops[si][d] {
				maps[si][d] = math.MaxUint64
				continue
			}
			maps[si][d] = next
			next++
		}
	}
	c.Count = int(next)
	fset := map[string]bool{}
	dvset := map[string]bool{}
	c.Stored = make([][]StoredVal, c.Count)
	for si, in := range inputs {
		for _, f := range in.Fields {
			fset[f] = true
		}
		for _, f := range in.DVFields {
			dvset[f] = true
		}
		for d, sv := range in.Stored {
			if nd := maps[si][d]; nd != math.MaxUint64 {
				c.Stored[nd] = sv
			}
		}
		for f, terms := range in.Postings {
			for t, hits := range terms {
				for _, h := range hits {
					nd := maps[si][h.Doc]
					if nd == math.MaxUint64 {
						continue
					}
					if c.Postings[f] == nil {
						c.Postings[f] = map[string][]Hit{}
					}
					h2 := h
					h2.Doc = nd
					c.Postings[f][t] = append(c.Postings[f][t], h2)
				}
			}
		}
		for f, docs := range in.DV {
			for d, terms := range docs {
				nd := maps[si][d]
				if nd == math.MaxUint64 {
					continue
				}
				if c.DV[f] == nil {
					c.DV[f] = map[uint64][]string{}
				}
				c.DV[f][nd] = terms
			}
		}
		for name, terms := range in.Thes {
			for t, ps := range terms {
				for _, p := range ps {
					nd := maps[si][p.Doc]
					if nd == math.MaxUint64 {
						continue
					}
					if c.Thes[name] == nil {
						c.Thes[name] = map[string][]SynPair{}
					}
					c.Thes[name][t] = append(c.Thes[name][t], SynPair{p.Syn, uint32(nd)})
				}
			}
		}
		for name, vf := range in.Vecs {
			for _, v := range vf.Vecs {
				nd := maps[si][v.Doc]
				if nd == math.MaxUint64 {
					continue
				}
				if c.Vecs[name] == nil {
					c.Vecs[name] = &VecField{Dims: vf.Dims, Metric: vf.Metric}
				}
				c.Vecs[name].Vecs = append(c.Vecs[name].Vecs, VecEntry{uint32(nd), v.Vec})
			}
		}
	}
	for f := range fset {
		c.Fields = append(c.Fields, f)
	}
	sort.Strings(c.Fields)
	for f := range dvset {
		c.DVFields = append(c.DVFields, f)
	}
	sort.Strings(c.DVFields)
	for _, terms := range c.Postings {
		for t := range terms {
			hs := terms[t]
			sort.SliceStable(hs, func(a, b int) bool { return hs[a].Doc < hs[b].Doc })
		}
	}
	c.normalize()
	return c, maps
}

// ---------------------------------------------------------------------------
// canonical rendering

// Sections selects which parts of the content are rendered.
type Sections struct {
	Meta, Postings, Stored, DV, Thes, Vecs bool
	// NoDVList omits the list of visitable doc-value fields from the DV section
	// (for merged segments the properties bound it but do not pin it exactly).
	NoDVList bool
}

// All is everything a segment dump can observe; AllVecs adds the reference's vector table.
var All = Sections{Meta: true, Postings: true, Stored: true, DV: true, Thes: true}
var AllVecs = Sections{Meta: true, Postings: true, Stored: true, DV: true, Thes: true, Vecs: true}

func (c *Content) Render(s Sections) string {
	var b strings.Builder
	if s.Meta {
		fmt.Fprintf(&b, "count %d\n", c.Count)
		fmt.Fprintf(&b, "fields %q\n", c.Fields)
	}
	if s.Postings {
		var fs []string
		for f, terms := range c.Postings {
			if len(terms) > 0 {
				fs = append(fs, f)
			}
		}
		sort.Strings(fs)
		for _, f := range fs {
			var ts []string
			for t, hits := range c.Postings[f] {
				if len(hits) > 0 {
					ts = append(ts, t)
				}
			}
			sort.Strings(ts)
			for _, t := range ts {
				fmt.Fprintf(&b, "post %q %q:", f, t)
				for _, h := range c.Postings[f][t] {
					fmt.Fprintf(&b, " [d%d f%d", h.Doc, h.Freq)
					if h.Freq > 0 {
						fmt.Fprintf(&b, " n%v", h.Norm)
					}
					for _, l := range h.Locs {
						fmt.Fprintf(&b, " (%q p%d s%d e%d ap%v)", l.Field, l.Pos, l.Start, l.End, l.AP)
					}
					b.WriteString("]")
				}
				b.WriteString("\n")
			}
		}
	}
	if s.Stored {
		for d, sv := range c.Stored {
			fmt.Fprintf(&b, "stored %d:", d)
			for _, v := range sv {
				fmt.Fprintf(&b, " (%q %q %q ap%v)", v.Field, string(v.Typ), v.Val, v.AP)
			}
			b.WriteString("\n")
		}
	}
	if s.DV {
		if !s.NoDVList {
			fmt.Fprintf(&b, "dvfields %q\n", c.DVFields)
		}
		var fs []string
		for f := range c.DV {
			fs = append(fs, f)
		}
		sort.Strings(fs)
		for _, f := range fs {
			var ds []uint64
			for d, terms := range c.DV[f] {
				if len(terms) > 0 {
					ds = append(ds, d)
				}
			}
			sort.Slice(ds, func(a, b int) bool { return ds[a] < ds[b] })
			for _, d := range ds {
				fmt.Fprintf(&b, "dv %q %d %q\n", f, d, c.DV[f][d])
			}
		}
	}
	if s.Thes {
		var ns []string
		for n := range c.Thes {
			ns = append(ns, n)
		}
		sort.Strings(ns)
		for _, n := range ns {
			var ts []string
			for t, ps := range c.Thes[n] {
				if len(ps) > 0 {
					ts = append(ts, t)
				}
			}
			sort.Strings(ts)
			for _, t := range ts {
				fmt.Fprintf(&b, "syn %q %q:", n, t)
				for _, p := range c.Thes[n][t] {
					fmt.Fprintf(&b, " (%q d%d)", p.Syn, p.Doc)
				}
				b.WriteString("\n")
			}
		}
	}
	if s.Vecs {
		var ns []string
		for n := range c.Vecs {
			ns = append(ns, n)
		}
		sort.Strings(ns)
		for _, n := range ns {
			vf := c.Vecs[n]
			var ls []string
			for _, v := range vf.Vecs {
				ls = append(ls, fmt.Sprintf("(d%d %v)", v.Doc, v.Vec))
			}
			sort.Strings(ls)
			fmt.Fprintf(&b, "vec %q dims=%d metric=%s: %s\n", n, vf.Dims, vf.Metric, strings.Join(ls, " "))
		}
	}
	return b.String()
}

// Diff returns "" if the strings are equal, otherwise a short description of the
// first differing lines.
func Diff(exp, got string) string {
	if exp == got {
		return ""
	}
	el, gl := strings.Split(exp, "\n"), strings.Split(got, "\n")
	es, gs := map[string]int{}, map[string]int{}
	for _, l := range el {
		es[l]++
	}
	for _, l := range gl {
		gs[l]++
	}
	var b strings.Builder
	n := 0
	for _, l := range el {
		if gs[l] < es[l] && n < 6 {
			fmt.Fprintf(&b, "  expected: %s\n", l)
			n++
		}
	}
	n = 0
	for _, l := range gl {
		if es[l] < gs[l] && n < 6 {
			fmt.Fprintf(&b, "  observed: %s\n", l)
			n++
		}
	}
	if b.Len() == 0 {
		return "  (same lines, different order)\n"
	}
	return b.String()
}
