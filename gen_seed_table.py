#!/usr/bin/env python3
"""Regenerates the seeded-changes table in DESIGN.md section 7 from seeded/*/meta.json."""
import json, glob, os, re
rows = []
for d in sorted(glob.glob('/verif/seeded/*/')):
    d = d.rstrip('/')
    m = json.load(open(os.path.join(d, 'meta.json')))
    name = os.path.basename(d)
    note = m.get('notes', '')
    rows.append(f"| `{name}` | {m['breaks_property']} | {m['needs_to_manifest']} | {', '.join(m['caught_by_quick_checks'])} | {note or '-'} |")
table = "| seeded change | breaks | needs, in order to manifest | caught by (quick tier) | history of the check |\n|---|---|---|---|---|\n" + "\n".join(rows) + "\n"
p = '/verif/DESIGN.md'
s = open(p).read()
begin, end = '<!-- SEEDED-TABLE-BEGIN -->', '<!-- SEEDED-TABLE-END -->'
if 'SEEDED-TABLE-PLACEHOLDER' in s:
    s = s.replace('SEEDED-TABLE-PLACEHOLDER', begin + '\n' + table + end)
else:
    s = re.sub(re.escape(begin) + '.*?' + re.escape(end), begin + '\n' + table + end, s, flags=re.S)
open(p, 'w').write(s)
print(len(rows), 'rows')
