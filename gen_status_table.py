#!/usr/bin/env python3
"""Regenerates DESIGN.md section 9 (as-built status table) from evidence/*.json."""
import json, glob, os, re
rows=[]
for f in sorted(glob.glob('/verif/evidence/C*.json')):
    e=json.load(open(f)); c=e['coverage']
    extra=''
    if e['level']=='model_checking':
        extra=f"states {c.get('states')}, transitions {c.get('transitions')}, traces {c.get('traces_validated_against_impl')}"
    else:
        extra=f"distinct non-trivial {c.get('distinct_nontrivial')}"
    rows.append(f"| {e['property_id']} | {e['level']} | {e['tier']} | {c.get('bounds_completed','')} | {c.get('evaluations')} | {extra} | {c.get('exhaustive')} | {e['wall_s']:.0f} s |")
table="| id | level | tier of this snapshot | bounds completed | evaluations | states / distinct cases | exhaustive | wall |\n|---|---|---|---|---|---|---|---|\n"+"\n".join(rows)+"\n"
p='/verif/DESIGN.md'
s=open(p).read()
begin,end='<!-- STATUS-TABLE-BEGIN -->','<!-- STATUS-TABLE-END -->'
sec=f"""## 9. As-built status (snapshot of the evidence files; regenerate with gen_status_table.py)

The per-property sections of 4 describe the design; the exact alphabets, bounds and
oracles as implemented are the `rule` and `bounds_completed` strings each check writes
into its evidence file (source: `harness/props/cXX.go`). Snapshot of the last run:

{begin}
{table}{end}

"""
if begin in s:
    s=re.sub(re.escape(begin)+'.*?'+re.escape(end), begin+'\n'+table+end, s, flags=re.S)
else:
    s=s.replace('## Appendix A.', sec+'## Appendix A.')
open(p,'w').write(s)
print(len(rows))
