#!/bin/bash
# ./seedall.sh [tier]  - re-runs every kept seeded change against the checks listed in its
# meta.json (plus the check of the property it breaks) and writes seeded/RESULTS.txt.
tier=${1:-quick}
out=/verif/seeded/RESULTS.txt
: > "$out.tmp"
for d in /verif/seeded/*/; do
  n=$(basename "$d")
  props=$(python3 - "$d" <<'PY'
import json,sys
m=json.load(open(sys.argv[1]+'/meta.json'))
ps=[m['breaks_property']]+[c for c in m['caught_by_quick_checks'] if c!=m['breaks_property']]
print(' '.join(dict.fromkeys(ps)))
PY
)
  full=$(/verif/seedtest.sh "$d/patch.diff" "$tier" $props 2>&1)
  r=$(echo "$full" | tail -1)
  sigs=$(echo "$full" | grep -o 'C[0-9][0-9] sig=[^;]*' | sed 's/ sig=/:/' | sort -u | tr '\n' ' ')
  echo "$n [$props] -> $r  sigs: $sigs" | tee -a "$out.tmp"
done
mv "$out.tmp" "$out"
