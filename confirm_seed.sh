#!/bin/bash
# ./confirm_seed.sh <worktree>  - confirms a sub-agent's seeded change in its scratch worktree:
# suite passes with the change, demo fails with it, demo passes without it.
set -u
wt=$1; tags=${2:-}
export GOFLAGS=-mod=mod GOPROXY=off GOSUMDB=off GOTOOLCHAIN=local
cd "$wt" || exit 2
git checkout -q -- . ; rm -f zz_seed_demo_test.go
[ -f _seed/patch.diff ] || { echo "no patch"; exit 2; }
git apply _seed/patch.diff || { echo "PATCH-DOES-NOT-APPLY"; exit 1; }
echo "--- build+suite with change"; go build ./... && go test -vet=off -count=1 ./... 2>&1 | tail -3
suite=$?
cp _seed/zz_seed_demo_test.go . 
name=$(grep -o 'func Test[A-Za-z0-9_]*' zz_seed_demo_test.go | head -1 | sed 's/func //')
echo "--- demo ($name) WITH change"; go test -vet=off -count=1 $tags -run "^$name\$" . 2>&1 | tail -4
git checkout -q -- .
echo "--- demo WITHOUT change"; go test -vet=off -count=1 $tags -run "^$name\$" . 2>&1 | tail -3
rm -f zz_seed_demo_test.go
git status --short | head -5
